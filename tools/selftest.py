#!/usr/bin/env python3
# runs the hand-written mutants of selftest/mutants.py against scratch worktrees of /repo HEAD:
# each must make the named check exit 1 and mention the expected rule.  usage: tools/selftest.py [ids or property ids...]
import sys, os, subprocess, shutil, json
from concurrent.futures import ThreadPoolExecutor
HERE = os.path.dirname(os.path.dirname(os.path.abspath(__file__)))
sys.path.insert(0, os.path.join(HERE, 'selftest'))
from mutants import M
sel = set(sys.argv[1:])
todo = [x for x in M if not sel or x[0] in sel or x[1] in sel]
def run(x):
    mid, prop, rule, file, old, new, note = x
    w = '/tmp/selftest.%d.%s' % (os.getpid(), mid)
    subprocess.run(['git', '-C', '/repo', 'worktree', 'add', '-q', '--detach', w, 'HEAD'], check=True)
    try:
        p = os.path.join(w, 'src', 'cocls', file)
        s = open(p).read()
        if s.count(old) != 1 and not (note.endswith('[all]') and s.count(old) > 1):
            return (mid, prop, 'PATCH-FAILED (%d matches)' % s.count(old), note)
        open(p, 'w').write(s.replace(old, new))
        cc = subprocess.run(['clang++', '-std=gnu++20', '-fsyntax-only', '-Wno-everything', '-I' + os.path.join(w, 'src'), '-I' + os.path.join(HERE, 'drivers')] + [os.path.join(HERE, 'drivers', d) for d in ('inst_future.cpp',)], capture_output=True, text=True)
        env = dict(os.environ, COCLS_REPO=w, COCLS_NO_EVIDENCE='1')
        r = subprocess.run(['python3', os.path.join(HERE, 'engine', 'check.py'), prop, '--tier', 'quick'], capture_output=True, text=True, env=env, cwd=HERE)
        hit = [l for l in r.stdout.splitlines() if l.startswith('  violation') and rule in l]
        verdict = 'caught' if (r.returncode == 1 and hit) else ('WRONG-RULE rc=%d' % r.returncode if r.returncode == 1 else 'MISSED rc=%d' % r.returncode)
        extra = '' if verdict == 'caught' else ' | ' + ' / '.join(l.strip()[:160] for l in (r.stdout + r.stderr).splitlines() if 'violation' in l or 'BROKEN' in l)[:400]
        return (mid, prop, verdict + extra, note)
    finally:
        subprocess.run(['git', '-C', '/repo', 'worktree', 'remove', '--force', w], capture_output=True)
with ThreadPoolExecutor(max_workers=6) as ex:
    res = list(ex.map(run, todo))
bad = 0
for mid, prop, v, note in res:
    print('%-6s %-4s %-40s %s' % (mid, prop, note[:40], v))
    bad += not v.startswith('caught')
print('%d mutants, %d not caught' % (len(res), bad))
sys.exit(1 if bad else 0)
