#!/bin/sh
# round-6 scratch trees under ${TD:-/tmp/m6}/<Cxx-n>: (re)creates / re-syncs the trees from /verif/seeded-incoming/<Cxx>/<n>/patch.diff (or $SRC), runs all checks
# on one fact base and prints "<tree> own=<yes|no> fired=<checks> broken=<checks>".  TREES="C01-1 C02-3" restricts; ENG=<engine root> uses another engine snapshot
SRC=${SRC:-/verif/seeded-incoming}; mkdir -p ${TD:-/tmp/m6}
for w in ${TREES:-$(ls -d $SRC/C*/[1234] | sed "s#$SRC/\(C..\)/\(.\)#\1-\2#")}; do c=${w%%-*}; n=${w##*-}; d=$SRC/$c/$n; t=${TD:-/tmp/m6}/$w
  [ -f $d/patch.diff ] || continue
  [ -d $t ] || git -C /repo worktree add -q --detach $t HEAD
  git -C $t checkout -q --detach $(git -C /repo rev-parse HEAD) 2>/dev/null
  git -C $t checkout -q -- . && git -C $t apply $d/patch.diff || { echo "FAIL $w"; continue; }
  COCLS_CACHE_KEEP=250 COCLS_REPO=$t COCLS_NO_EVIDENCE=1 COCLS_NO_SELFTEST=1 python3 ${ENG:-/verif}/engine/check.py --all --tier quick > ${TD:-/tmp/m6}/$w.log 2>&1
  fired=$(grep -E "^=== C.. rc=1" ${TD:-/tmp/m6}/$w.log | cut -c5-7 | tr '\n' ' '); broken=$(grep -E "^=== C.. rc=2" ${TD:-/tmp/m6}/$w.log | cut -c5-7 | tr '\n' ' ')
  case " $fired" in *" $c "*) own=yes;; *) own=no;; esac
  echo "$w own=$own fired=$fired broken=$broken"
done
