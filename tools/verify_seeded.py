#!/usr/bin/env python3
# Independent confirmation of sub-agent mutants: for each /tmp/mut/<id>/<n>: scratch worktree of /repo HEAD, apply patch, full build,
# 15 tests, demo with and without the change.  Writes <dir>/verified.json.   usage: verify_seeded.py <dir> [...]
import sys, os, subprocess, json, re, shutil, time
def sh(cmd, cwd=None, timeout=900):
    try:
        r = subprocess.run(cmd, shell=True, cwd=cwd, capture_output=True, text=True, timeout=timeout)
        return r.returncode, (r.stdout + r.stderr)[-3000:]
    except subprocess.TimeoutExpired as ex:
        return 124, 'TIMEOUT after %ss' % timeout
def verify(d):
    d = os.path.abspath(d)
    out = {'dir': d, 'at': time.strftime('%Y-%m-%d %H:%M:%S')}
    w = '/tmp/vs.%d' % os.getpid()
    sh('git -C /repo worktree remove --force %s' % w)
    rc, o = sh('git -C /repo worktree add -q --detach %s HEAD' % w)
    try:
        first = open(os.path.join(d, 'demo.cpp')).readline()
        m = re.match(r'\s*//\s*build:\s*(.*)$', first)
        if not m:
            out['error'] = 'no build line'; return out
        bl = m.group(1).strip()
        def build_demo(tag):
            cmd = bl.replace('<SRC>', os.path.join(w, 'src')).replace('demo.cpp', os.path.join(d, 'demo.cpp'))
            cmd = re.sub(r'-o\s+\S+', '', cmd) + ' -o %s/demo_%s' % (w, tag)
            return sh(cmd, cwd=w, timeout=600)
        def run_demo(tag):
            return sh('timeout 60 %s/demo_%s' % (w, tag), cwd=w, timeout=90)
        rc, o = build_demo('clean'); out['demo_clean_build_rc'] = rc
        if rc != 0: out['demo_clean_build_out'] = o[-600:]
        runs = [run_demo('clean')[0] for _ in range(3)] if rc == 0 else []
        out['demo_clean_rcs'] = runs
        rc, o = sh('git apply %s' % os.path.join(d, 'patch.diff'), cwd=w); out['apply_rc'] = rc
        if rc != 0:
            out['error'] = 'patch does not apply: ' + o[-300:]; return out
        rc, o = sh('cmake -G Ninja -S . -B _b -DCMAKE_BUILD_TYPE=RelWithDebInfo >/dev/null 2>&1 && cmake --build _b -j8 2>&1 | tail -3', cwd=w, timeout=1200); out['build_rc'] = rc; out['build_tail'] = o[-300:]
        t = []
        for i in range(2):
            rc, o = sh('ctest --test-dir _b -j4 --timeout 120 2>&1 | grep -E "tests passed|tests failed|Failed|\\*\\*\\*" | head -6', cwd=w, timeout=1200)
            t.append(o.strip()[:300])
        out['ctest'] = t
        rc, o = build_demo('mut'); out['demo_mut_build_rc'] = rc
        if rc != 0: out['demo_mut_build_out'] = o[-600:]
        out['demo_mut_rcs'] = [run_demo('mut')[0] for _ in range(3)] if rc == 0 else []
        out['ok'] = (out.get('build_rc') == 0 and 'FAIL' not in out['build_tail'] and any('100% tests passed' in x for x in t) and out['demo_clean_rcs'] and all(r == 0 for r in out['demo_clean_rcs'])
                     and out['demo_mut_rcs'] and sum(1 for r in out['demo_mut_rcs'] if r != 0) >= 2)
        return out
    finally:
        sh('git -C /repo worktree remove --force %s' % w)
        shutil.rmtree(w, ignore_errors=True)
for d in sys.argv[1:]:
    r = verify(d)
    json.dump(r, open(os.path.join(d, 'verified.json'), 'w'), indent=1)
    print(d, 'OK' if r.get('ok') else 'NOT-OK', {k: r.get(k) for k in ('apply_rc', 'build_rc', 'demo_clean_rcs', 'demo_mut_rcs', 'error')}, r.get('ctest'))
