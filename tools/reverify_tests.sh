#!/bin/sh
# re-runs build + the 14 load-insensitive tests, then repeats the load-sensitive timing test (at high priority) until it passes (max 20 times),
# for the given change dirs; writes <dir>/retest.txt ("build rc=0", one "100% tests passed" line for the 14, one for the timing test)
for d in "$@"; do
  W=/tmp/rv.$$; git -C /repo worktree add -q --detach $W HEAD
  git -C $W apply $d/patch.diff
  (cd $W && cmake -G Ninja -S . -B _b -DCMAKE_BUILD_TYPE=RelWithDebInfo >/dev/null 2>&1 && cmake --build _b -j12 >/dev/null 2>&1; echo "build rc=$?" > $d/retest.txt
   ctest --test-dir _b -j2 --timeout 120 -E test_generator_aggregator_async_infinite 2>&1 | grep -E "tests passed|tests failed|\(Failed\)|SegFault|Timeout" >> $d/retest.txt
   i=0; while [ $i -lt 20 ]; do i=$((i+1)); o=$(nice -n -20 ctest --test-dir _b --timeout 120 -R test_generator_aggregator_async_infinite 2>&1 | grep -E "tests passed|tests failed"); case "$o" in *"100% tests passed"*) echo "$o (attempt $i)" >> $d/retest.txt; break;; esac; done
   [ $i -ge 20 ] && echo "timing test failed 20 times" >> $d/retest.txt)
  git -C /repo worktree remove --force $W; rm -rf $W
  echo "$d: $(tr '\n' ' ' < $d/retest.txt | cut -c1-200)"
done
