#!/bin/sh
# re-runs only build + ctest (3x, sequential) for the given mutant dirs on a quiet machine; appends to <dir>/retest.txt
for d in "$@"; do
  W=/tmp/rv.$$; git -C /repo worktree add -q --detach $W HEAD
  git -C $W apply $d/patch.diff
  (cd $W && cmake -G Ninja -S . -B _b -DCMAKE_BUILD_TYPE=RelWithDebInfo >/dev/null 2>&1 && cmake --build _b -j12 >/dev/null 2>&1; echo "build rc=$?" > $d/retest.txt
   for i in 1 2 3; do ctest --test-dir _b -j2 --timeout 120 2>&1 | grep -E "tests passed|tests failed|\(Failed\)|SegFault|Timeout" >> $d/retest.txt; done)
  git -C /repo worktree remove --force $W; rm -rf $W
  echo "$d: $(tr '\n' ' ' < $d/retest.txt | cut -c1-200)"
done
