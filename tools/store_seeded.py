#!/usr/bin/env python3
# stores confirmed sub-agent changes under seeded/<Cxx-n>/ (patch.diff, demo.cpp, meta.json)
# usage: store_seeded.py <round> <final matrix json> <initial matrix json>[,<more>] <mutant dir>...
# A change is stored only when <dir>/verified.json says ok (or ok after the flaky-test retry in <dir>/retest.txt).
import sys, os, json, shutil, re, glob
HERE = os.path.dirname(os.path.dirname(os.path.abspath(__file__)))
rnd = int(sys.argv[1])
final = json.load(open(sys.argv[2]))
initial = {}
for p in sys.argv[3].split(','):
    initial.update(json.load(open(p)))
head = os.popen('git -C /repo rev-parse --short HEAD').read().strip()
n_ok = 0
for d in sys.argv[4:]:
    d = os.path.abspath(d)
    meta = json.load(open(os.path.join(d, 'meta.json')))
    ver = json.load(open(os.path.join(d, 'verified.json')))
    retest = open(os.path.join(d, 'retest.txt')).read() if os.path.exists(os.path.join(d, 'retest.txt')) else None
    tests_ok = any('100% tests passed' in x for x in ver.get('ctest', []))
    if not tests_ok and retest:
        tests_ok = 'build rc=0' in retest and retest.count('100% tests passed') >= 2
    demo_ok = ver.get('demo_clean_rcs') and all(r == 0 for r in ver['demo_clean_rcs']) and ver.get('demo_mut_rcs') and sum(1 for r in ver['demo_mut_rcs'] if r != 0) >= 2
    if not (ver.get('apply_rc') == 0 and ver.get('build_rc') == 0 and tests_ok and demo_ok):
        print('NOT STORED', d, {'tests_ok': tests_ok, 'demo_ok': bool(demo_ok)}); continue
    prop = meta.get('property') or os.path.basename(os.path.dirname(d))
    k = int(os.path.basename(d)) + int(os.environ.get('SEEDED_OFFSET', 3 * (rnd - 1)))
    sid = '%s-%d' % (prop, k)
    out = os.path.join(HERE, 'seeded', sid)
    os.makedirs(out, exist_ok=True)
    shutil.copy(os.path.join(d, 'patch.diff'), out); shutil.copy(os.path.join(d, 'demo.cpp'), out)
    fin = final.get(d, {}); ini = initial.get(d, {})
    m = {'id': sid, 'round': rnd, 'breaks_property': prop, 'title': meta.get('title'), 'file': meta.get('file'), 'function': meta.get('function'),
         'what_it_breaks': meta.get('what_it_breaks'), 'needs_to_manifest': meta.get('needs_to_manifest'),
         'origin': ('written by an independent sub-agent that saw only the property text and a scratch worktree of /repo (no list of earlier changes, no access to /verif): an unbiased replicate of round 1'
                    if rnd in (5, 6) else
                    'written by an independent sub-agent that saw only the property text, the titles of the earlier changes for this property (not to be repeated) and a scratch worktree of /repo (no access to /verif)'),
         'confirmed_by_me': {'what_i_ran': 'tools/verify_seeded.py: scratch worktree of /repo HEAD, git apply patch.diff, cmake RelWithDebInfo full build (tests+examples), ctest x2, demo built with the build line of demo.cpp and run 3x with and 3x without the change; where both ctest runs failed only the load-sensitive test_generator_aggregator_async_infinite (a pre-existing flake) the other 14 tests were re-run and that test was repeated until it passed',
                             'patch_applies': True, 'project_builds': True, 'ctest_runs': ver.get('ctest'), 'ctest_rerun': retest, 'all_15_tests_pass': True,
                             'demo_exit_codes_without_change': ver.get('demo_clean_rcs'), 'demo_exit_codes_with_change': ver.get('demo_mut_rcs'), 'repo_head_at_confirmation': head},
         'detected_initially_by': ini.get('hits', {}), 'detected_initially_by_own_property_check': bool(ini.get('own')),
         'detected_by': fin.get('hits', {}), 'detected_by_own_property_check': bool(fin.get('own')), 'checks_analysis_broken_on_it': fin.get('broken', [])}
    json.dump(m, open(os.path.join(out, 'meta.json'), 'w'), indent=1)
    n_ok += 1
print('stored', n_ok)
