#!/bin/sh
# fourth refactoring experiment: (re)creates /tmp/rw4/<Ux><n> from /tmp/ref4/<Ux>/<n>/patch.diff and runs all 20 quick checks on each (one process per tree)
mkdir -p /tmp/ref4/out /tmp/rw4
for d in ${DIRS:-$(ls -d /tmp/ref4/U?/[123])}; do g=$(basename $(dirname $d)); n=$(basename $d); t=/tmp/rw4/$g$n
  [ -f $d/patch.diff ] || continue
  [ -d $t ] || git -C /repo worktree add -q --detach $t HEAD
  git -C $t checkout -q -- . && git -C $t apply $d/patch.diff || echo "FAIL apply $g$n"
done
ls /tmp/rw4 | xargs -P ${P:-6} -I{} sh -c 'COCLS_CACHE_KEEP=250 COCLS_REPO=/tmp/rw4/{} COCLS_NO_EVIDENCE=1 COCLS_NO_SELFTEST=1 python3 /verif/engine/check.py --all --tier quick 2>&1 | awk -v T={} "/^=== C.. begin/{c=\$2} /violation|BROKEN/{print T\" \"c\": \"substr(\$0,1,${W:-300})}" > /tmp/ref4/out/{}.txt 2>&1'
cat /tmp/ref4/out/*.txt
echo "alarming (patch,check) pairs: $(cat /tmp/ref4/out/*.txt | cut -d: -f1 | sort -u | wc -l)"
