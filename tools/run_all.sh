#!/bin/sh
# runs every registered check (tier $1, default quick) on /repo, rewriting evidence; prints one line per check
T=${1:-quick}; cd "$(dirname "$0")/.."
rc=0
for id in $(python3 -c "import json;print(' '.join(c['property_id'] for c in json.load(open('MANIFEST.json'))['checks']))"); do
  out=$(python3 engine/check.py $id --tier $T 2>&1); r=$?
  echo "$id rc=$r $(echo "$out" | head -1 | cut -c1-100) $(echo "$out" | grep -E 'VIOLATION|BROKEN' | head -2 | cut -c1-200)"
  [ $r -ne 0 ] && rc=1
done
exit $rc
