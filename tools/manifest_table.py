# per-property claim texts for MANIFEST.json
TB = 'Trusted: clang 14 front end / constant evaluator / clang::CFG, libstdc++ 12 conformance, the explicit rule tables (each line with a reason), interprocedural bound 3 and the exception-edge convention. Only instantiated template code is analysed (coverage listed in evidence). '
CHECKS = {
 'C03': {'technique': 'static analysis: atomic memory-order role table + no-touch-after-publish path rule + must-lockset dataflow over clang CFGs',
         'text': 'Decides three structural necessary conditions of C03 over all paths of every instantiated library body, not data-race freedom itself: every atomic site meets the minimum order of its tabled role; no path touches an awaiter after publishing it; every guarded field is accessed under its mutex from every entry point. This is the part of "every execution" that lives in the program text; an execution-level DRF proof is out of reach for any static tool available here.',
         'note': TB + 'Races not implied by the three conditions and weak-memory effects beyond tabled release/acquire pairs are undecided.'},
}
NOT_APPLICABLE = {}
