#!/usr/bin/env python3
# runs every seeded mutant (dirs given, each with patch.diff + meta.json) against every registered check; prints a matrix
import sys, os, subprocess, json, glob
from concurrent.futures import ThreadPoolExecutor
HERE = os.path.dirname(os.path.dirname(os.path.abspath(__file__)))
checks = [c['property_id'] for c in json.load(open(os.path.join(HERE, 'MANIFEST.json')))['checks']]
dirs = sys.argv[1:]
def run(d):
    w = '/tmp/mx.%d.%s' % (os.getpid(), d.strip('/').replace('/', '_'))
    subprocess.run(['git', '-C', '/repo', 'worktree', 'add', '-q', '--detach', w, 'HEAD'], check=True)
    res = {}
    try:
        r = subprocess.run(['git', '-C', w, 'apply', os.path.join(d, 'patch.diff')], capture_output=True, text=True)
        if r.returncode != 0:
            return d, {'_error': 'patch'}
        env = dict(os.environ, COCLS_REPO=w, COCLS_NO_EVIDENCE='1')
        r = subprocess.run(['python3', os.path.join(HERE, 'engine', 'check.py'), '--all', '--tier', 'quick'], capture_output=True, text=True, env=env, cwd=HERE)
        cur = None; viol = {}
        for l in r.stdout.splitlines():
            if l.startswith('=== ') and l.endswith(' begin'):
                cur = l.split()[1]; viol[cur] = set()
            elif l.startswith('=== ') and ' rc=' in l:
                c = l.split()[1]; res[c] = (int(l.rsplit('rc=', 1)[1]), sorted(viol.get(c, set()))); cur = None
            elif l.startswith('  violation') and cur:
                viol[cur].add(l.split(':')[1].split(' in ')[0].strip())
        for c in checks:
            res.setdefault(c, (2, ['(no result)']))
    finally:
        subprocess.run(['git', '-C', '/repo', 'worktree', 'remove', '--force', w], capture_output=True)
    return d, res
with ThreadPoolExecutor(max_workers=int(os.environ.get('MATRIX_WORKERS', '12'))) as ex:
    out = list(ex.map(run, dirs))
summary = {}
for d, res in out:
    meta = {}
    try:
        meta = json.load(open(os.path.join(d, 'meta.json')))
    except Exception:
        pass
    prop = meta.get('property') or meta.get('breaks_property') or os.path.basename(os.path.dirname(d.rstrip('/')))
    hits = {c: v for c, v in res.items() if c != '_error' and v[0] == 1}
    broken = [c for c, v in res.items() if c != '_error' and v[0] == 2]
    own = prop in hits
    print('%-12s own=%-5s hits=%s%s' % (d.rstrip('/').split('/')[-2] + '/' + d.rstrip('/').split('/')[-1], own, {c: v[1] for c, v in hits.items()}, (' BROKEN=' + ','.join(broken)) if broken else ''))
    summary[d] = {'property': prop, 'own': own, 'hits': {c: v[1] for c, v in hits.items()}, 'broken': broken}
json.dump(summary, open(os.environ.get('MATRIX_OUT', '/tmp/matrix.json'), 'w'), indent=1)
print('own-property detections: %d / %d ; detected by any check: %d' % (sum(1 for s in summary.values() if s['own']), len(summary), sum(1 for s in summary.values() if s['hits'])))
