#!/bin/sh
# round 7: copies finished sub-agent deliverables (/tmp/mut7/Cxx/n/{patch.diff,demo.cpp,meta.json}) into /verif/seeded-incoming7
cd "$(dirname "$0")/.."
for c in /tmp/mut7/C*/; do id=$(basename $c); for n in 1 2 3; do
  [ -f $c/$n/patch.diff ] && [ -f $c/$n/demo.cpp ] && [ -f $c/$n/meta.json ] && mkdir -p seeded-incoming7/$id/$n && cp -n $c/$n/patch.diff $c/$n/demo.cpp $c/$n/meta.json seeded-incoming7/$id/$n/
done; done
find seeded-incoming7 -name patch.diff 2>/dev/null | wc -l
