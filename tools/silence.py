#!/usr/bin/env python3
# runs every check on scratch worktrees with the given (behaviour-preserving) patches applied; anything but exit 0 is reported
import sys, os, subprocess, json
from concurrent.futures import ThreadPoolExecutor
HERE = os.path.dirname(os.path.dirname(os.path.abspath(__file__)))
checks = [c['property_id'] for c in json.load(open(os.path.join(HERE, 'MANIFEST.json')))['checks']]
def run(d):
    w = '/tmp/sl.%d.%s' % (os.getpid(), d.strip('/').replace('/', '_'))
    subprocess.run(['git', '-C', '/repo', 'worktree', 'add', '-q', '--detach', w, 'HEAD'], check=True)
    res = []
    try:
        r = subprocess.run(['git', '-C', w, 'apply', os.path.join(d, 'patch.diff')], capture_output=True, text=True)
        if r.returncode != 0:
            return d, ['PATCH DOES NOT APPLY: ' + r.stderr[-200:]]
        env = dict(os.environ, COCLS_REPO=w, COCLS_NO_EVIDENCE='1')
        for c in checks:
            r = subprocess.run(['python3', os.path.join(HERE, 'engine', 'check.py'), c, '--tier', os.environ.get('TIER', 'quick')], capture_output=True, text=True, env=env, cwd=HERE)
            if r.returncode != 0:
                lines = [l.strip()[:330] for l in (r.stdout + r.stderr).splitlines() if l.startswith('  violation') or 'BROKEN' in l]
                res.append('%s rc=%d: %s' % (c, r.returncode, ' || '.join(lines[:3])))
    finally:
        subprocess.run(['git', '-C', '/repo', 'worktree', 'remove', '--force', w], capture_output=True)
    return d, res
with ThreadPoolExecutor(max_workers=int(os.environ.get('JOBS', '4'))) as ex:
    out = list(ex.map(run, sys.argv[1:]))
n = 0
for d, res in out:
    print('%s: %s' % (d, 'silent' if not res else '%d alarm(s)' % len(res)))
    for r in res:
        print('    ' + r); n += 1
print('total alarms:', n)
