#!/bin/sh
# usage: tools/rw.sh <RA1|...> <Cxx> [more checks]  -- runs checks on the persistent refactored worktree /tmp/rw/<name>
n=$1; shift
for c in "$@"; do COCLS_CACHE_KEEP=60 COCLS_REPO=/tmp/rw/$n COCLS_NO_EVIDENCE=1 python3 /verif/engine/check.py $c --tier quick 2>&1 | grep -E "violation|BROKEN" | cut -c1-${W:-400} | sed "s#^#$n $c: #"; done
