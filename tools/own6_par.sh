#!/bin/sh
# runs tools/own6.sh over the given trees (default: all incoming) in N parallel batches; output in ${TD:-/tmp/m6}/part.<i>.out
N=${N:-5}; SRC=${SRC:-/verif/seeded-incoming}; mkdir -p ${TD:-/tmp/m6}; rm -f ${TD:-/tmp/m6}/part.*
all=${TREES:-$(ls -d $SRC/C*/[1234] | sed "s#$SRC/\(C..\)/\(.\)#\1-\2#")}
i=0; for t in $all; do echo $t >> ${TD:-/tmp/m6}/part.$((i%N)); i=$((i+1)); done
for p in $(seq 0 $((N-1))); do [ -f ${TD:-/tmp/m6}/part.$p ] && TREES="$(tr '\n' ' ' < ${TD:-/tmp/m6}/part.$p)" "$(dirname "$0")/own6.sh" > ${TD:-/tmp/m6}/part.$p.out 2>&1 & done
wait
cat ${TD:-/tmp/m6}/part.*.out | grep -v WARNING | sort
