#!/bin/sh
# runs tools/own6.sh over the given trees (default: all incoming) in N parallel batches; output in /tmp/m6/part.<i>.out
N=${N:-5}; SRC=${SRC:-/verif/seeded-incoming}; mkdir -p /tmp/m6; rm -f /tmp/m6/part.*
all=${TREES:-$(ls -d $SRC/C*/[1234] | sed "s#$SRC/\(C..\)/\(.\)#\1-\2#")}
i=0; for t in $all; do echo $t >> /tmp/m6/part.$((i%N)); i=$((i+1)); done
for p in $(seq 0 $((N-1))); do [ -f /tmp/m6/part.$p ] && TREES="$(tr '\n' ' ' < /tmp/m6/part.$p)" "$(dirname "$0")/own6.sh" > /tmp/m6/part.$p.out 2>&1 & done
wait
cat /tmp/m6/part.*.out | grep -v WARNING | sort
