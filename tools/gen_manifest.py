#!/usr/bin/env python3
# regenerates MANIFEST.json from the table below (kept valid at all times)
import json, os, sys
HERE = os.path.dirname(os.path.dirname(os.path.abspath(__file__)))
props = {json.loads(l)['id']: json.loads(l) for l in open(os.path.join(HERE, 'properties.jsonl'))}
sys.path.insert(0, os.path.join(HERE, 'tools'))
from manifest_table import CHECKS, NOT_APPLICABLE
checks = []
for pid in sorted(CHECKS):
    c = CHECKS[pid]
    checks.append({
        'property_id': pid,
        'quick_cmd': 'python3 engine/check.py %s --tier quick' % pid,
        'thorough_cmd': 'python3 engine/check.py %s --tier thorough' % pid,
        'evidence_file': 'evidence/%s.json' % pid,
        'replay_cmd_template': 'python3 engine/check.py --explain {path}',
        'engine': c.get('engine', 'coclint'),
        'level_claimed': {'category': 'other', 'text': c['text'], 'design_ref': c.get('design_ref', 'DESIGN.md section 4/' + pid)},
        'level_note': c['note'],
        'technique': c['technique'],
    })
na = [{'property_id': p, 'reason': r} for p, r in sorted(NOT_APPLICABLE.items()) if p not in CHECKS]
for p in sorted(props):
    if p not in CHECKS and p not in NOT_APPLICABLE:
        na.append({'property_id': p, 'reason': 'no committed static check decides a clause of this property yet (work in progress, see DESIGN.md section 4)'})
m = {
    'version': 1,
    'setup_cmd': './setup.sh',
    'hooks': {'guard': 'COCLS_VERIF', 'enable': 'none: the analyses read the unmodified sources; no hook exists in /repo', 
              'baseline_off_cmd': 'cmake --build /repo/_build -j16 && ctest --test-dir /repo/_build -j8 --timeout 900', 'source_commits': [], 'add_only': True},
    'engines': [
        {'name': 'coclint', 'path': 'engine', 'serves_properties': sorted(CHECKS), 'kind_free_text': 'custom static analyser: clang-14 libTooling extractor (per-instantiation CFG -> event mini-IR) + Python rule runner (path enumeration with interprocedural expansion, must-dataflow, role tables, sibling comparison); LLVM-IR call-graph reachability; compile-time type witnesses'},
    ],
    'checks': checks,
    'not_applicable': sorted(na, key=lambda x: x['property_id']),
    'notes': 'All checks are static: nothing executes library code. Exit 0 held / 1 violation (VIOLATION line) / 2 analysis-broken (anchor vanished; never a pass, never a violation). Genuine defects found on the pinned commit were repaired by fix: commits in /repo and are listed as fixed in known_findings.json.',
}
json.dump(m, open(os.path.join(HERE, 'MANIFEST.json'), 'w'), indent=1)
print('MANIFEST.json: %d checks, %d not_applicable' % (len(checks), len(m['not_applicable'])))
try:
    import jsonschema  # available under python3-vt
    jsonschema.validate(m, json.load(open('/root/.vp/MANIFEST.schema.json')))
    print('schema: valid')
except ImportError:
    print('schema: jsonschema not available, skipped')
