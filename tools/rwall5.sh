#!/bin/sh
# refactoring experiment on the stored patches: (re)creates /tmp/rw5/<id> from /verif/refactor/<id>/patch.diff and runs all 20 quick checks on each (one process per tree)
mkdir -p /tmp/rw5/out
for d in ${DIRS:-$(ls -d /verif/refactor/*/)}; do id=$(basename $d); t=/tmp/rw5/$id
  [ -f $d/patch.diff ] || continue
  [ -d $t ] || git -C /repo worktree add -q --detach $t HEAD
  git -C $t checkout -q --detach $(git -C /repo rev-parse HEAD) 2>/dev/null
  git -C $t checkout -q -- . && git -C $t apply $d/patch.diff || echo "FAIL apply $id"
done
ls -d /tmp/rw5/V* | xargs -n1 basename | xargs -P ${P:-6} -I{} sh -c 'COCLS_CACHE_KEEP=250 COCLS_REPO=/tmp/rw5/{} COCLS_NO_EVIDENCE=1 COCLS_NO_SELFTEST=1 python3 /verif/engine/check.py --all --tier quick 2>&1 | awk -v T={} "/^=== C.. begin/{c=\$2} /violation|BROKEN/{print T\" \"c\": \"substr(\$0,1,${W:-300})}" > /tmp/rw5/out/{}.txt 2>&1'
cat /tmp/rw5/out/*.txt
echo "alarming (patch,check) pairs: $(cat /tmp/rw5/out/*.txt | grep -v BROKEN | cut -d: -f1 | sort -u | wc -l); analysis-broken pairs: $(cat /tmp/rw5/out/*.txt | grep BROKEN | cut -d: -f1 | sort -u | wc -l)"
