#!/bin/sh
# fifth refactoring experiment (small single-function commits): (re)creates /tmp/rw5/<Ux><n> from /tmp/ref5/<Ux>/<n>/patch.diff and runs all 20 quick checks on each (one process per tree)
mkdir -p /tmp/ref5/out /tmp/rw5
for d in ${DIRS:-$(ls -d /tmp/ref5/V?/[1-8])}; do g=$(basename $(dirname $d)); n=$(basename $d); t=/tmp/rw5/$g$n
  [ -f $d/patch.diff ] || continue
  [ -d $t ] || git -C /repo worktree add -q --detach $t HEAD
  git -C $t checkout -q -- . && git -C $t apply $d/patch.diff || echo "FAIL apply $g$n"
done
ls /tmp/rw5 | xargs -P ${P:-6} -I{} sh -c 'COCLS_CACHE_KEEP=250 COCLS_REPO=/tmp/rw5/{} COCLS_NO_EVIDENCE=1 COCLS_NO_SELFTEST=1 python3 /verif/engine/check.py --all --tier quick 2>&1 | awk -v T={} "/^=== C.. begin/{c=\$2} /violation|BROKEN/{print T\" \"c\": \"substr(\$0,1,${W:-300})}" > /tmp/ref5/out/{}.txt 2>&1'
cat /tmp/ref5/out/*.txt
echo "alarming (patch,check) pairs: $(cat /tmp/ref5/out/*.txt | cut -d: -f1 | sort -u | wc -l)"
