#!/bin/sh
# usage: tools/try_mutant.sh <patch.diff> [Cxx ...]   -- applies the patch to a scratch worktree of /repo HEAD,
# runs the given checks (default: all in MANIFEST) against it via COCLS_REPO, prints exit codes, cleans up.
P=$(readlink -f "$1"); shift
W=/tmp/mutwt.$$
git -C /repo worktree add -q --detach $W HEAD || exit 3
trap 'git -C /repo worktree remove --force '$W' >/dev/null 2>&1' EXIT
if ! git -C $W apply "$P"; then echo "PATCH DOES NOT APPLY"; exit 3; fi
cd /verif
IDS="$@"
[ -z "$IDS" ] && IDS=$(python3 -c "import json;print(' '.join(c['property_id'] for c in json.load(open('MANIFEST.json'))['checks']))")
for id in $IDS; do
  out=$(COCLS_REPO=$W COCLS_NO_EVIDENCE=1 python3 engine/check.py $id --tier ${TIER:-quick} 2>&1); rc=$?
  echo "$id rc=$rc $(echo "$out" | grep -E '^  violation|ANALYSIS-BROKEN' | head -3 | cut -c1-260)"
done
