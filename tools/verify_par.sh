#!/bin/sh
# confirms every incoming change (tools/verify_seeded.py) in N parallel streams; skips those already confirmed ok
N=${N:-3}; cd "$(dirname "$0")/.."; rm -f /tmp/vp.part.*
i=0; for d in ${DIRS:-$(ls -d seeded-incoming/C*/[1234])}; do grep -q '"ok": true' $d/verified.json 2>/dev/null && continue; echo $d >> /tmp/vp.part.$((i%N)); i=$((i+1)); done
for p in $(seq 0 $((N-1))); do [ -f /tmp/vp.part.$p ] && python3 tools/verify_seeded.py $(cat /tmp/vp.part.$p) > /tmp/vp.part.$p.out 2>&1 & done
wait; cat /tmp/vp.part.*.out | grep -v WARNING | cut -c1-300
