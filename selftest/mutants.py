# Hand-written rule self-test mutants ("fires on a broken instance", DESIGN section 6).
# (id, property, expected rule substring, file under src/cocls, old text, new text, note)
M = []
def m(*a): M.append(a)

m('M01', 'C01', 'C01.claim-rmw', 'future.h',
  "        return _owner.exchange(nullptr, std::memory_order_relaxed);",
  "        auto x = _owner.load(std::memory_order_relaxed); if (x) _owner.store(nullptr, std::memory_order_relaxed); return x;", 'claim by load+store')
m('M02', 'C01', 'C01.set-then-resolve', 'future.h',
  """            m->set(std::forward<Args>(args)...);
            return suspend_point<bool>(m->resolve(), true);
        }
        return suspend_point<bool>(false);
    }

    ///Set value DropTag""",
  """            auto __sp = m->resolve();
            m->set(std::forward<Args>(args)...);
            return suspend_point<bool>(std::move(__sp), true);
        }
        return suspend_point<bool>(false);
    }

    ///Set value DropTag""", 'resolve before set')
m('M03', 'C01', 'C01.', 'future.h',
  """    suspend_point<bool> set_value(DropTag) {
        auto m = claim();""",
  """    suspend_point<bool> set_value(DropTag) {
        auto m = _owner.load();""", 'drop resolver reads _owner directly')
m('M04', 'C01', 'C01.verdict', 'future.h',
  """            return suspend_point<bool>(m->resolve(), true);
        }
        return suspend_point<bool>(false);
    }

    ///Set value DropTag""",
  """            return suspend_point<bool>(m->resolve(), true);
        }
        return suspend_point<bool>(true);
    }

    ///Set value DropTag""", 'loser reports true')
m('M05', 'C01', 'C01.types', 'future.h',
  "    promise(const promise &other) =delete;", "    promise(const promise &other):_owner(other._owner.load()) {}", 'copyable promise')
m('M05b', 'C01', 'C01.dtor-resolves', 'future.h',
  """        auto m = _owner.load(std::memory_order_relaxed);
        if (m) m->resolve();""", """        auto m = _owner.load(std::memory_order_relaxed);
        (void)m;""", '~promise no longer resolves')
m('M05c', 'C01', 'C01.no-value', 'future.h',
  """                if (pending())
                    throw value_not_ready_exception();
                else
                    throw await_canceled_exception();""", """                throw value_not_ready_exception();""", 'no-value mapped to value_not_ready [all]')
m('M05d', 'C01', 'C01.who-writes', 'future.h',
  """    void result_of(Fn &&fn) noexcept {
        this->~future();""", """    void result_of(Fn &&fn) noexcept {
        this->~future(); this->_state = State::not_value;""", 'new writer of _state')
m('M10a', 'C03', 'C03.R1', 'awaiter.h',
  "        } while (!chain.compare_exchange_weak(prev, this, std::memory_order_release, std::memory_order_relaxed));",
  "        } while (!chain.compare_exchange_weak(prev, this, std::memory_order_relaxed, std::memory_order_relaxed));", 'subscribe CAS relaxed')
m('M10b', 'C03', 'C03.R1', 'future.h',
  "        return _awaiter.load(std::memory_order_acquire) == &awaiter::disabled;", "        return _awaiter.load(std::memory_order_relaxed) == &awaiter::disabled;", 'ready() relaxed')
m('M10c', 'C03', 'C03.R1', 'mutex.h',
  "            if (_requests.compare_exchange_strong(x, nullptr, std::memory_order_release)) [[likely]] {",
  "            if (_requests.compare_exchange_strong(x, nullptr, std::memory_order_relaxed)) [[likely]] {", 'unlock CAS relaxed')
m('M10d', 'C03', 'C03.R1-refused', 'awaiter.h',
  "                std::atomic_thread_fence(std::memory_order_acquire);", "", 'acquire fence of refused subscribe removed')
m('M11', 'C03', 'C03.R3', 'queue.h',
  """    std::size_t size() {
        std::lock_guard _(_mx);""", """    std::size_t size() {""", 'queue::size without the lock')
m('M11b', 'C03', 'C03.R2', 'awaiter.h',
  """        set_handle(h);
        return this->_owner.subscribe(this);""", """        bool r = this->_owner.subscribe(this);
        if (r) set_handle(h);
        return r;""", 'set_handle after subscribe')
m('M06', 'C02', 'C02.subscribe-protocol', 'awaiter.h',
  """            if (_next == &ready_state) {
                _next = nullptr;""", """            if (false && _next == &ready_state) {
                _next = nullptr;""", 'ready marker test dropped')
m('M07', 'C02', 'C02.walk', 'awaiter.h',
  """            auto y = chain;
            chain = chain->_next;
            y->_next = nullptr;
            ret << y->resume();""", """            auto y = chain;
            ret << y->resume();
            chain = y->_next;""", 'link read after resume')
m('M08', 'C02', 'C02.result-used', 'future.h',
  """    auto x = new Awt(std::forward<Fn>(fn), w);
    if (!w) x->resume();""", """    auto x = new Awt(std::forward<Fn>(fn), w);
    (void)x;""", 'discard ignores refused registration')
m('M09', 'C02', 'C02.', 'awaiter.h',
  """        set_handle(h);
        return this->_owner.subscribe(this);""", """        bool r = this->_owner.subscribe(this);
        set_handle(h);
        return r;""", 'set_handle after subscribe')
m('M09b', 'C02', 'C02.final-awaiter', 'async.h',
  """            suspend_point<void> sp = f ? f->resolve():suspend_point<void>();
            //now we can destroy our frame
            me.destroy();""", """            me.destroy();
            suspend_point<void> sp = f ? f->resolve():suspend_point<void>();""", 'destroy before resolve')
m('M09c', 'C02', 'C02.resolve-one-rmw', 'awaiter.h',
  "        return resume_chain_lk(chain.exchange(&ready_state, std::memory_order_acq_rel));",
  "        auto c = chain.load(std::memory_order_acquire); chain.store(&ready_state, std::memory_order_release); return resume_chain_lk(c);", 'resolve by load+store')
m('M09d', 'C02', 'C02.sync-waits', 'awaiter.h',
  """    sync_awaiter awt;
    if (subscribe(&awt)) {
        awt.flag.wait(false);
    }
}

template<typename promise_type>
inline void co_awaiter<promise_type>::force_sync() noexcept  {""", """    sync_awaiter awt;
    if (!subscribe(&awt)) {
        awt.flag.wait(false);
    }
}

template<typename promise_type>
inline void co_awaiter<promise_type>::force_sync() noexcept  {""", 'sync blocks on the refused edge')
m('M21', 'C07', 'C07.try-lock', 'mutex.h',
  """        awaiter *n = nullptr;
        bool ok = _requests.compare_exchange_strong(n, doorman());""", """        bool ok = _requests.load() == nullptr;
        if (ok) _requests.store(doorman());""", 'try-lock by load+store')
m('M22', 'C07', 'C07.build-queue', 'mutex.h',
  "        awaiter *req = _requests.exchange(doorman(), std::memory_order_acquire);", "        awaiter *req = _requests.exchange(nullptr, std::memory_order_acquire);", 'build_queue installs null')
m('M23', 'C07', 'C07.unlock-once', 'mutex.h',
  """        _queue = _queue->_next;
        //clear _next ptr to avoid leaking invalid pointer to next code
        first->_next = nullptr;
        //resume awaiter - it has ownership now
        fn(first);""", """        //resume awaiter - it has ownership now
        fn(first);
        _queue = first->_next;""", 'hand over before unlinking')
m('M23b', 'C07', 'C07.unlock-once', 'mutex.h',
  """            build_queue(doorman());
            //the queue is now not-empty""", """            //the queue is now not-empty
            return;""", 'failed CAS returns without hand-over')
m('M23c', 'C07', 'C07.subscribe', 'mutex.h',
  """            build_queue(aw);
            //suspend is not needed, we already own the mutex
            return false;""", """            //suspend is not needed, we already own the mutex
            return false;""", 'free path does not install the doorman')
m('M23d', 'C07', 'C07.release-once', 'mutex.h',
  "            mutex *mx = _ptr.release();", "            mutex *mx = _ptr.get();", 'release keeps the pointer')
m('M23e', 'C07', 'C07.build-queue', 'mutex.h',
  """            auto x = req;
            req = req->_next;
            x->_next = _queue;
            _queue= x;""", """            auto x = req;
            x->_next = _queue;
            _queue= x;
            req = req->_next;""", 'link overwritten before read')
m('M23f', 'C07', 'C07.types', 'mutex.h',
  "    mutex(const mutex &) = delete;", "    mutex(const mutex &) {}", 'copyable mutex')
m('M24', 'C08', 'C08.try-lock', 'mutex.h',
  "        return ready()?ownership(this):ownership(nullptr);", "        return ownership(lock());", 'try_lock blocks')
m('M24b', 'C08', 'C08.refill-only-when-empty', 'mutex.h',
  "        if (!_queue) [[likely]] {", "        {", 'refill non-empty FIFO')
m('M24c', 'C08', 'C08.release-returns', 'mutex.h',
  "                    ret << awt->resume();", "                    awt->resume();", 'release drops the resumption')
m('M24d', 'C08', 'C08.fifo-structure', 'mutex.h',
  """            x->_next = _queue;
            _queue= x;""", """            x->_next = nullptr;
            if (_queue) { auto t = _queue; while (t->_next) t = t->_next; t->_next = x; } else _queue = x;""", 'append at tail (LIFO service)')
m('M12', 'C04', 'C04.claimed-promise', 'async.h',
  """        if (promise._future) {
            return start_coro();
        }  else {
            return nullptr;
        }""", """        return start_coro();""", 'start without claim')
m('M13', 'C04', 'C04.', 'async.h',
  """        auto h = std::exchange(_h,{});
        return h;""", """        return _h;""", 'start_coro keeps the handle')
m('M13b', 'C04', 'C04.co-await-wiring', 'async.h',
  """            std::coroutine_handle<promise_type> start_handle = std::coroutine_handle<promise_type>::from_address(this->_handle_addr);
            auto &p = start_handle.promise();
            this->set_handle(h);""", """            this->set_handle(h);
            std::coroutine_handle<promise_type> start_handle = std::coroutine_handle<promise_type>::from_address(this->_handle_addr);
            auto &p = start_handle.promise();""", 'set_handle overwrites callee handle')
m('M13c', 'C04', 'C04.dtor', 'async.h',
  "        if (_h) _h.destroy();", "        (void)_h;", '~async leaks unstarted frame')
m('M13d', 'C04', 'C04.start-once', 'async.h',
  """    suspend_point<void> detach() {
        return start_coro();""", """    suspend_point<void> detach() {
        if (!_h) return {};
        return start_coro();""", 'detach may not start')
m('M13e', 'C04', 'C04.types', 'async.h',
  "    std::suspend_always initial_suspend() noexcept {return {};}", "    std::suspend_never initial_suspend() noexcept {return {};}", 'coroutine starts eagerly')
m('M14', 'C05', 'C05.mode-split', 'coro_queue.h',
  """        if (instance) {
            assert("Attempt to resume empty handle " && h);
            instance->_queue.push_back(h);
        } else {
            install_queue_and_resume(h);
        }""", """        install_queue_and_resume(h);""", 'resume always nests')
m('M15', 'C05', 'C05.drain-before-restore', 'coro_queue.h',
  """            instance->flush_queue();
            instance = prev;""", """            auto __q = instance;
            instance = prev;
            __q->flush_queue();""", 'restore before drain')
m('M16', 'C05', 'C05.drain-before-restore', 'coro_queue.h',
  "            while (!_queue.empty()) {", "            if (!_queue.empty()) {", 'drain once')
m('M16b', 'C05', 'C05.fifo-ops', 'coro_queue.h',
  """        void push(std::coroutine_handle<> h) {
            return _queue.push_back(h);""", """        void push(std::coroutine_handle<> h) {
            return _queue.push_front(h);""", 'enqueue at the front')
m('M16c', 'C05', 'C05.mode-split', 'suspend_point.h',
  """                for (auto x: *this) {
                    coro_queue::instance->push(std::coroutine_handle<>::from_address(x));
                }
            } else {
                coro_queue::install_queue_and_call([&]{
                    for (auto x: *this) {""", """                for (auto x: *this) {
                    std::coroutine_handle<>::from_address(x).resume();
                }
            } else {
                coro_queue::install_queue_and_call([&]{
                    for (auto x: *this) {""", 'suspend_now resumes directly in coroutine mode')
m('M16d', 'C05', 'C05.pause', 'coro_queue.h',
  """        queue.push_back(h);
        h = queue.front();
        queue.pop_front();
        return h;
    }
};""", """        auto n = queue.front();
        queue.pop_front();
        queue.push_back(h);
        return n;
    }
};""", 'pause takes the head before re-queueing itself')
m('M17', 'C06', 'C06.storage-typestate', 'suspend_point.h',
  """                add(other._ext._handles[i]);
            }
            delete [] other._ext._handles;""", """                add(other._ext._handles[i]);
            }""", 'merge leaks the source array')
m('M18', 'C06', 'C06.storage-typestate', 'suspend_point.h',
  """                std::copy(_ext._handles, _ext._handles+count, nh);
                delete[] _ext._handles;""", """                std::copy(_ext._handles, _ext._handles+count, nh);""", 'growth leaks the old array')
m('M19', 'C06', 'C06.consumers-clear', 'suspend_point.h',
  """                coro_queue::instance->push(h);
            }
            clear_internal();
            return out;""", """                coro_queue::instance->push(h);
            }
            return out;""", 'await_suspend does not clear')
m('M20', 'C06', 'C06.types', 'suspend_point.h',
  "    suspend_point(const suspend_point &) = delete;", "    suspend_point(const suspend_point &) = default;", 'copyable suspend point')
m('M20b', 'C06', 'C06.source-reset', 'suspend_point.h',
  """            _local = other._local;
        }
        other._count_flag = 0;""", """            _local = other._local;
        }""", 'move ctor keeps the source armed')
m('M20c', 'C06', 'C06.storage-typestate', 'suspend_point.h',
  """        if (_count_flag & 1) [[unlikely]] {
            delete [] _ext._handles;
        }
        _count_flag = 0;""", """        _count_flag = 0;""", 'clear_internal leaks')
m('M20d', 'C06', 'C06.growth', 'suspend_point.h',
  "            if (count < inline_count)  [[likely]] {", "            if (count + 1 < inline_count)  [[likely]] {", 'inline capacity off by one (allocates at 3)')
m('M25', 'C09', 'C09.resolve-outside-lock', 'queue.h',
  """            promise<T> p = std::move(_awaiters.front());
            _awaiters.pop();
            lk.unlock();
            return p(std::forward<Args>(args)...);""", """            promise<T> p = std::move(_awaiters.front());
            _awaiters.pop();
            return p(std::forward<Args>(args)...);""", 'push resolves under the lock')
m('M26', 'C09', 'C09.item-linear-pop', 'queue.h',
  """                    promise();
                }
                _queue.pop();
                lk.unlock();
            }
        };
    }

    ///unblock awaiting coroutine""", """                    promise();
                }
                lk.unlock();
            }
        };
    }

    ///unblock awaiting coroutine""", 'pop forgets to remove the item')
m('M26b', 'C09', 'C09.item-linear-push', 'queue.h',
  """        if (!_awaiters.empty()) {
            promise<T> p = std::move(_awaiters.front());
            _awaiters.pop();
            lk.unlock();
            return p(std::forward<Args>(args)...);
        } else {
            _queue.emplace(std::forward<Args>(args)...);
            return false;""", """        if (!_awaiters.empty()) {
            promise<T> p = std::move(_awaiters.front());
            lk.unlock();
            return p(std::forward<Args>(args)...);
        } else {
            _queue.emplace(std::forward<Args>(args)...);
            return false;""", 'push leaves the served waiter in the queue')
m('M26c', 'C09', 'C09.never-empty', 'queue.h',
  """        if (_awaiters.empty()) return false;
        promise<T> p = std::move(_awaiters.front());
        _awaiters.pop();
        lk.unlock();
        return p.set_exception(e);        """, """        promise<T> p = std::move(_awaiters.front());
        _awaiters.pop();
        lk.unlock();
        return p.set_exception(e);        """, 'unblock_pop without empty test')
m('M27', 'C10', 'C10.item-linear-pop', 'queue.h',
  """                    auto p = std::move(front.second);
                    _blocked.pop();""", """                    auto p = std::move(front.second);""", 'limited pop forgets _blocked.pop')
m('M27b', 'C10', 'C10.item-linear-push', 'queue.h',
  "        } else if (this->_queue.size() >= _limit) {", "        } else if (this->_queue.size() > _limit) {", 'limit off by one')
m('M27c', 'C10', 'C10.item-linear-pop', 'queue.h',
  """                    lk.unlock();
                    p();
                } else {""", """                    p();
                    lk.unlock();
                } else {""", 'blocked push completed under the lock')
m('M28', 'C11', 'C11.enqueue', 'thread_pool.h',
  """        if (!_exit) {
            _queue.push(std::move(fn));
            _cond.notify_one();
        }""", """        _queue.push(std::move(fn));
        _cond.notify_one();""", 'enqueue after exit')
m('M29', 'C11', 'C11.closure-owns-waiter', 'thread_pool.h',
  """            auto fin = [](co_awaiter *x) {
                //resume coroutine (in queue if possible)
                //we will throw exception when await_resume()
                coro_queue::resume(x->_h);
            };""", """            auto fin = [](co_awaiter *x) {
                (void)x;
            };""", 'deleter does not resume')
m('M30', 'C11', 'C11.stop', 'thread_pool.h',
  "            _cond.notify_all();\n            std::swap(tmp, _threads);", "            _cond.notify_one();\n            std::swap(tmp, _threads);", 'stop notifies one')
m('M30b', 'C11', 'C11.worker', 'thread_pool.h',
  """            if (_exit) break;
            auto h = std::move(_queue.front());""", """            auto h = std::move(_queue.front());""", 'worker ignores exit after wait')
m('M30c', 'C11', 'C11.cancel-observable', 'thread_pool.h',
  "            if (_h) throw await_canceled_exception();", "            (void)_h;", 'cancel not observable')
m('M30d', 'C11', 'C11.run-once', 'thread_pool.h',
  """               awtptr->_h = nullptr;
               //release pointer, as we don't need to call the deleter
               awtptr.release();

               coro_queue::resume(h);""", """               awtptr->_h = nullptr;
               coro_queue::resume(h);""", 'guard not released: resumed twice')
m('M30e', 'C11', 'C11.stop', 'thread_pool.h',
  """            if (t.get_id() == me) {
                t.detach();
                //mark this thread as ordinary thread
                _current = nullptr;
            }
            else {
                t.join();
            }""", """            t.join();""", 'self join')
m('M31', 'C12', 'C12.cancel', 'scheduler.h',
  """        auto p = remove(id);
        if (p) {
            return {p(e), true};""", """        std::lock_guard _(_mx);
        auto p = promise();
        for (auto &x: _scheduled) if (x._ident == id && x._p) {p = std::move(x._p);break;}
        if (p) {
            return {p(e), true};""", 'cancel resolves under the lock')
m('M31b', 'C12', 'C12.nonempty', 'scheduler.h',
  "        while (!_scheduled.empty() && _scheduled[0]._ident == id) {", "        while (_scheduled[0]._ident == id) {", 'revert of the remove() fix')
m('M31c', 'C12', 'C12.', 'scheduler.h',
  """        std::stop_callback stpc(token,[&]{
            this->cancel(&tag);""", """        std::stop_callback stpc(token,[&]{
            std::lock_guard _(_mx);
            this->cancel(&tag);""", 'revert of the interval fix')
m('M31d', 'C12', 'C12.schedule-wakes-worker', 'scheduler.h',
  """          if (ntf) {
              _cond.notify_all();
          }""", """          (void)ntf;""", 'schedule never notifies')
m('M31e', 'C12', 'C12.never-early', 'scheduler.h',
  "        while (!_scheduled.empty() && (_scheduled[0]._tp <= now || !_scheduled[0]._p)) {", "        while (!_scheduled.empty() && (_scheduled[0]._tp >= now || !_scheduled[0]._p)) {", 'due test inverted')
m('M31f', 'C12', 'C12.heap-discipline', 'scheduler.h',
  "        return a._tp > b._tp;", "        return a._tp < b._tp;", 'max-heap instead of min-heap')
m('M31g', 'C12', 'C12.interval-cancel', 'scheduler.h',
  "                waiter << [&]{return this->sleep_until(next, &tag);};", "                waiter << [&]{return this->sleep_until(next, &counter);};", 'sleep under another identifier')
m('M39', 'C16', 'C16.wake-outside-lock', 'publisher.h',
  """             auto wk = std::move(_wakeup_buffer);
             lk.unlock();
             for (awaiter *x: wk) x->resume();
             lk.lock();""", """             auto wk = std::move(_wakeup_buffer);
             for (awaiter *x: wk) x->resume();""", 'resume under the lock')
m('M40', 'C16', 'C16.close-wakes-all', 'publisher.h',
  """            _closed = true;
            push_lk(lk,0);""", """            _closed = true;""", 'close does not wake')
m('M40b', 'C16', 'C16.close-wakes-all', 'publisher.h',
  """                         _wakeup_buffer.push_back(x._awt);
                         x._awt = nullptr;""", """                         _wakeup_buffer.push_back(x._awt);""", 'parked awaiter not cleared (woken twice)')
m('M40c', 'C16', 'C16.advance-before-read', 'publisher.h',
  """            if (l._pos+1 == _pos && !_closed) return false;
            switch (t) {
                default:
                case subscribtion_type::all_values:
                    l._pos++;
                    break;""", """            if (l._pos+1 == _pos && !_closed) return false;
            switch (t) {
                default:
                case subscribtion_type::all_values:
                    break;""", 'all_values does not advance')
m('M40d', 'C16', 'C16.close-wakes-all', 'publisher.h',
  """                iter->_awt = nullptr;
                iter->_kicked =true;""", """                iter->_awt = nullptr;""", 'kick does not mark')
m('M40e', 'C16', 'C16.subscriber-protocol', 'publisher.h',
  """    ~subscriber() {
        _q->leave(_h);
    }""", """    ~subscriber() {
    }""", 'subscriber never leaves')
m('M41', 'C17', 'C17.charge', 'shared_future.h',
  """       _ptr = ptr;
       if (!(ptr->operator co_await()).subscribe(&ptr->resolve_tracer)) {
           _ptr = nullptr;
      }""", """       if (!(ptr->operator co_await()).subscribe(&ptr->resolve_tracer)) {
           _ptr = nullptr;
      } else _ptr = ptr;""", 'self reference after subscribe')
m('M41b', 'C17', 'C17.default-state', 'shared_future.h',
  "        if (!_ptr) _ptr = std::make_shared<future_internal>();", "        if (_ptr) _ptr = std::make_shared<future_internal>();", 'revert of the init_if_needed fix')
m('M41c', 'C17', 'C17.tracer-first', 'shared_future.h',
  """        auto p = _ptr->get_promise();
        _ptr->resolve_tracer.charge(_ptr);
        return p;""", """        auto p = _ptr->get_promise();
        return p;""", 'get_promise does not charge the tracer')
m('M41d', 'C17', 'C17.default-state', 'shared_future.h',
  """        if (_ptr) return _ptr->ready();
        else return false;""", """        return _ptr->ready();""", 'ready derefs null')
m('M41e', 'C17', 'C17.charge', 'shared_future.h',
  """       if (!(ptr->operator co_await()).subscribe(&ptr->resolve_tracer)) {
           _ptr = nullptr;
      }""", """       (void)(ptr->operator co_await()).subscribe(&ptr->resolve_tracer);""", 'refused registration keeps self reference')
m('M42', 'C18', 'C18.conv-siblings', 'future_conv.h',
  """        try {
            return p(fn(*_this->_fut, ctx));
        } catch (...) {
            return p(std::current_exception());
        }""", """        return p(fn(*_this->_fut, ctx));""", 'one converter loses its catch-all')
m('M43', 'C18', 'C18.', 'future.h',
  "    virtual ~future_with_cb() = default;", "    ~future_with_cb() = default;", 'non-virtual destructor')
m('M43b', 'C18', 'C18.self-owning', 'future.h',
  """            _this->_fn(*_this);
            delete _this;""", """            delete _this;
            _this->_fn(*_this);""", 'delete before callback')
m('M43c', 'C18', 'C18.callback-once', 'callback_awaiter.h',
  """    } catch (...) {
        fn(await_result<RetVal>{});
    }""", """    } catch (...) {
    }""", 'exception outcome not reported')
m('M43d', 'C18', 'C18.refused-completes-now', 'future.h',
  """        _fut << std::forward<Fn>(xfn);
        if (!_fut.subscribe(this)) {
            this->resume();
        }""", """        _fut << std::forward<Fn>(xfn);
        if (_fut.subscribe(this)) {
            this->resume();
        }""", 'completion on the registered edge')
m('M43e', 'C18', 'C18.conv-siblings', 'future_conv.h',
  """        try {
            return (ctx->*fn)(p);
        } catch (...) {
            return p(std::current_exception());
        }""", """        try {
            auto r = (ctx->*fn)(p);
            p(drop);
            return r;
        } catch (...) {
            return p(std::current_exception());
        }""", 'delegating shape also resolves')
m('M37', 'C15', 'C15.value-before-notify', 'signal.h',
  """            _state->_cur_val = &val;
            return _state->notify_awaiters();""", """            auto __r = _state->notify_awaiters();
            _state->_cur_val = &val;
            return __r;""", 'notify before storing the value')
m('M38', 'C15', 'C15.self-owning', 'signal.h',
  """                if (!st) {
                    delete this;
                    return;
                }""", """                if (!st) {
                    return;
                }""", 'dead-state path leaks the awaiter')
m('M38b', 'C15', 'C15.alive-or-fail', 'signal.h',
  """                this->subscribe(s->_chain);
                return true;
            }  else {
                return false;
            }""", """                this->subscribe(s->_chain);
                return true;
            }  else {
                return true;
            }""", 'disconnected emitter suspends forever')
m('M38c', 'C15', 'C15.value-before-notify', 'signal.h',
  """            _cur_val = nullptr;
            notify_awaiters();""", """            _cur_val = nullptr;""", 'disconnect does not wake')
m('M38d', 'C15', 'C15.alive-or-fail', 'signal.h',
  "            throw await_canceled_exception();", "            throw value_not_ready_exception();", 'wrong exception on disconnect')
m('M32', 'C13', 'C13.ask-siblings', 'generator.h',
  """                auto h = std::coroutine_handle<promise_type>::from_promise(*this);
                //if generator is finished, throw exception
                if (h.done()) throw no_more_values_exception();
                //setup awaiting promise""", """                auto h = std::coroutine_handle<promise_type>::from_promise(*this);
                //setup awaiting promise""", 'next_future does not refuse a finished generator')
m('M33', 'C13', 'C13.one-step', 'iterator.h',
  """    reference operator*() const {
        return _gen->value();""", """    reference operator*() const {
        (void)(bool)_gen->next();
        return _gen->value();""", 'operator* advances')
m('M34', 'C13', 'C13.hooks', 'generator.h',
  """        void return_void() {
            _done = true;""", """        void return_void() {""", 'return_void does not mark done')
m('M34b', 'C13', 'C13.hooks', 'generator.h',
  """        yield_suspend final_suspend() noexcept {
            _ret = nullptr;""", """        yield_suspend final_suspend() noexcept {""", 'final_suspend keeps the last value')
m('M34c', 'C13', 'C13.wake-asker-once', 'generator.h',
  "                awaiter *caller = std::exchange(p->_caller, nullptr);", "                awaiter *caller = p->_caller;", 'asker not taken')
m('M34d', 'C13', 'C13.one-step', 'iterator.h',
  """        storage z{std::move(_gen->value())};
        _next = _gen->next();
        return z;""", """        storage z{std::move(_gen->value())};
        return z;""", 'postfix ++ does not advance')
m('M35', 'C14', 'C14.retire-or-rearm', 'generator_aggregator.h',
  """                exp = std::current_exception();
                cnt.fin();""", """                exp = std::current_exception();""", 'catch does not retire the source')
m('M36', 'C14', 'C14.charge-each-once', 'generator_aggregator.h',
  "    cbs.reserve(list__.size());", "", 'no reserve: callbacks relocate')
m('M36b', 'C14', 'C14.drain', 'generator_aggregator.h',
  """        while (_count>1) {
            _queue.pop().wait();
            _count--;
        }""", """        if (_count>1) {
            _queue.pop().wait();
            _count--;
        }""", 'drain waits for one source only')
m('M36c', 'C14', 'C14.retire-or-rearm', 'generator_aggregator.h',
  """        if (g.done()) {
            cnt.fin();
        } else {""", """        if (g.done()) {
        } else {""", 'finished source not counted out')
m('M36d', 'C14', 'C14.callback-enqueues-once', 'generator_aggregator.h',
  "        _gen.next(std::forward<Args>(args)...).subscribe(this);", "        (void)_gen.next(std::forward<Args>(args)...);", 'charge does not subscribe')
m('M44', 'C19', 'C19.trailer', 'coro_storage.h',
  "            p = ::operator new(sz+sizeof(reusable_storage_mtsafe **));", "            p = ::operator new(sz);", 'no room for the owner pointer')
m('M45', 'C19', 'C19.pairing', 'alloca_storage.h',
  "        if (*flag) ::operator delete(ptr);", "        (void)flag;", 'stack_storage never frees its heap fallback')
m('M45b', 'C19', 'C19.reuse', 'coro_storage.h',
  "        if (sz > _capacity) {", "        if (sz >= _capacity) {", 'equal sizes re-allocate')
m('M45c', 'C19', 'C19.pairing', 'coro_storage.h',
  """        T *x = reinterpret_cast<T *>(static_cast<std::uint8_t *>(ptr)+sz);
        x->~T();""", """        T *x = reinterpret_cast<T *>(static_cast<std::uint8_t *>(ptr)+sz);
        (void)x;""", 'extra object never destroyed')
m('M45d', 'C19', 'C19.routing', 'with_allocator.h',
  """    void operator delete(void *ptr, std::size_t sz) {
        Allocator::dealloc(ptr, sz);""", """    void operator delete(void *ptr, std::size_t sz) {
        Allocator::dealloc(ptr, sz-1);""", 'delete passes another size')
m('M45e', 'C19', 'C19.concept', 'with_allocator.h',
  """private:
    void *operator new(std::size_t); //incorrectly use of with_allocator""", """public:
    void *operator new(std::size_t sz) {return ::operator new(sz);} //incorrectly use of with_allocator""", 'plain operator new made public')
m('M45f', 'C19', 'C19.trailer', 'coro_storage.h',
  "        auto s = reinterpret_cast<reusable_storage_mtsafe **>(reinterpret_cast<char *>(ptr) + sz);\n        auto me = *s;", "        auto s = reinterpret_cast<reusable_storage_mtsafe **>(reinterpret_cast<char *>(ptr) + sz - sizeof(void *));\n        auto me = *s;", 'dealloc reads the owner at another offset')
m('M46', 'C20', 'C20.no-allocation-reachable', 'mutex.h',
  """    void build_queue(awaiter *stop) {
        //atomically swap top of _requests with doorman""", """    void build_queue(awaiter *stop) {
        std::vector<awaiter *> __tmp; __tmp.push_back(stop);
        //atomically swap top of _requests with doorman""", 'vector in build_queue')
m('M47', 'C20', 'C20.no-allocation-reachable', 'awaiter.h',
  """    sync_awaiter awt;
    if (subscribe(&awt)) {
        awt.flag.wait(false);
    }
}

template<typename promise_type>
inline void co_awaiter<promise_type>::force_sync() noexcept  {""", """    auto awtp = std::make_shared<sync_awaiter>(); sync_awaiter &awt = *awtp;
    if (subscribe(&awt)) {
        awt.flag.wait(false);
    }
}

template<typename promise_type>
inline void co_awaiter<promise_type>::force_sync() noexcept  {""", 'sync allocates its awaiter')
m('M47b', 'C20', 'C20.no-allocation-reachable', 'future.h',
  """    suspend_point<bool> set_value(DropTag) {
        auto m = claim();""", """    suspend_point<bool> set_value(DropTag) {
        std::string __why("dropped"); (void)__why.append(40, 'x');
        auto m = claim();""", 'string in drop')
m('M05e', 'C01', 'C01.state-tag-agrees', 'future.h',
  """        new (&_exception) std::exception_ptr(std::move(e));
        _state = State::exception;""", """        new (&_exception) std::exception_ptr(std::move(e));
        _state = State::value;""", 'exception stored under the value tag')
m('M30f', 'C11', 'C11.run-resolves-once', 'thread_pool.h',
  """                } catch(...) {
                    promise(std::current_exception());
                }""", """                } catch(...) {
                }""", 'run(fn) swallows the exception')
m('M31h', 'C12', 'C12.destructor-stops-worker', 'scheduler.h',
  """            _glob_state->_stp.request_stop();
            _glob_state->_fut.wait();""", """            _glob_state->_stp.request_stop();""", 'destructor does not wait for the worker')
m('M31i', 'C12', 'C12.cancel-finds-live-entry', 'scheduler.h',
  "            return x._ident == id && x._p;",
  "            return x._ident == id;", 'revert of F17: the search matches cancelled entries too')
m('M40f', 'C16', 'C16.end-of-stream', 'publisher.h',
  "            if (l._kicked || l._pos == _pos) return {};", "            if (l._pos == _pos) return {};", 'kicked subscriber keeps reading')
m('M45g', 'C19', 'C19.buffer-large-enough', 'coro_storage.h',
  "        if (_buff.size() < items) _buff.resize(items);", "        if (_buff.size() > items) _buff.resize(items);", 'buffer shrunk instead of grown')
