// C06 negative witnesses
#include <cocls/suspend_point.h>
using namespace cocls;
// NEG-BEGIN copy-construct a suspend point
void neg1(suspend_point<void> &a) { suspend_point<void> b(a); (void)b; }
// NEG-END
// NEG-BEGIN copy-assign a suspend point
void neg2(suspend_point<void> &a, suspend_point<void> &b) { b = a; }
// NEG-END
// NEG-BEGIN copy a typed suspend point
void neg3(suspend_point<bool> &a) { suspend_point<bool> b(a); (void)b; }
// NEG-END
// NEG-BEGIN add a raw handle from outside (protected)
void neg4(suspend_point<void> &a, void *p) { a.add(p); }
// NEG-END
int main() {}
