// C07 negative witnesses
#include <cocls/mutex.h>
using namespace cocls;
// NEG-BEGIN copy a mutex
void neg1(mutex &m) { mutex n(m); (void)n; }
// NEG-END
// NEG-BEGIN copy an ownership
void neg2(mutex::ownership &o) { mutex::ownership p(o); (void)p; }
// NEG-END
// NEG-BEGIN forge an ownership from a raw mutex pointer (constructor is protected)
void neg3(mutex &m) { mutex::ownership p(&m); (void)p; }
// NEG-END
// NEG-BEGIN call the protected unlock from outside
void neg4(mutex &m) { m.unlock([](awaiter *){}); }
// NEG-END
// NEG-BEGIN call the protected subscribe from outside
void neg5(mutex &m, awaiter *a) { m.subscribe(a); }
// NEG-END
int main() {}
