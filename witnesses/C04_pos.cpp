// C04 type-level witnesses
#include <cocls/future.h>
#include <cocls/async.h>
#include "types.h"
using namespace cocls;
static_assert(std::is_same_v<decltype(std::declval<async_promise<int>&>().initial_suspend()), std::suspend_always>, "an unstarted coroutine never runs");
static_assert(std::is_same_v<decltype(std::declval<async_promise<void>&>().initial_suspend()), std::suspend_always>, "an unstarted coroutine never runs (void)");
static_assert(noexcept(std::declval<async_promise<int>&>().final_suspend()), "final_suspend is noexcept");
static_assert(!std::is_copy_constructible_v<async<int>> && !std::is_copy_assignable_v<async<int>>, "async is not copyable");
static_assert(std::is_move_constructible_v<async<int>>, "async is movable");
static_assert(!std::is_copy_constructible_v<async<void>> && !std::is_copy_constructible_v<async<MoveOnly>>, "async is not copyable for void / move-only results");
static_assert(!std::is_reference_v<decltype(std::declval<async<int>&>().join())>, "join() returns a value: the future it waits on is a temporary");
static_assert(!std::is_reference_v<decltype(std::declval<async<Counted>&>().join())>, "join() returns a value for class types");
static_assert(std::is_void_v<decltype(std::declval<async<void>&>().join())>, "join() of async<void> returns void");
static_assert(std::is_same_v<decltype(std::declval<async<int>&>().start()), future<int>>, "start() returns the bound future");
static_assert(std::is_same_v<decltype(std::declval<async<int>&>().start(std::declval<promise<int>&>())), suspend_point<bool>>, "start(promise) reports whether it started");
static_assert(std::is_same_v<decltype(std::declval<async<int>&>().detach()), suspend_point<void>>, "detach hands out the ready coroutine");
int main() {}
