// C04 negative witnesses
#include <cocls/future.h>
#include <cocls/async.h>
using namespace cocls;
// NEG-BEGIN copy an async object
void neg1(async<int> &a) { async<int> b(a); (void)b; }
// NEG-END
// NEG-BEGIN reach the raw handle from outside (protected)
void neg2(async<int> &a) { auto h = a._h; (void)h; }
// NEG-END
// NEG-BEGIN call start_coro from outside (protected)
void neg3(async<int> &a) { a.start_coro(); }
// NEG-END
int main() {}
