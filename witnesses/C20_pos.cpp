// C20 type-level witnesses: the error paths of the core primitives construct their exceptions without dynamic memory
// (an exception class that carries its message in a std::string - std::runtime_error and friends - allocates in its constructor, and its
// constructor may throw; the library's exceptions carry a string literal)
#include <cocls/exceptions.h>
#include <cocls/future.h>
#include <type_traits>
#include <stdexcept>
using namespace cocls;
static_assert(std::is_nothrow_default_constructible_v<await_canceled_exception> && !std::is_base_of_v<std::runtime_error, await_canceled_exception> && !std::is_base_of_v<std::logic_error, await_canceled_exception>, "a broken promise is reported without allocating a message");
static_assert(std::is_nothrow_default_constructible_v<value_not_ready_exception> && !std::is_base_of_v<std::runtime_error, value_not_ready_exception> && !std::is_base_of_v<std::logic_error, value_not_ready_exception>, "value() of a pending future is refused without allocating a message");
static_assert(std::is_nothrow_default_constructible_v<no_more_values_exception> && !std::is_base_of_v<std::runtime_error, no_more_values_exception> && !std::is_base_of_v<std::logic_error, no_more_values_exception>, "a finished generator refuses without allocating a message");
static_assert(sizeof(await_canceled_exception) == sizeof(std::exception) && sizeof(value_not_ready_exception) == sizeof(std::exception), "the exceptions of the core carry no state of their own");
int main() {}
