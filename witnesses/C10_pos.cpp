// C10 type-level witnesses: every path of push builds the item from the arguments the same way, T(args...)
#include <initializer_list>
#include <cocls/queue.h>
using namespace cocls;
// an item type for which T(a, b) and T{a, b} mean different things: the list form selects the initializer-list constructor,
// which is deleted here - a path of push that list-initialises the item does not instantiate
struct Probe {
    Probe(int, int);
    Probe(std::initializer_list<int>) = delete;
    Probe(Probe &&);
    Probe &operator=(Probe &&);
};
template suspend_point<bool> queue<Probe>::push<int, int>(int &&, int &&);  // WITNESS queue::push: hand-over and enqueue build T(args...)
template future<void> limited_queue<Probe>::push<int, int>(int &&, int &&);  // WITNESS limited_queue::push: hand-over, enqueue and the blocked item build T(args...)
static_assert(std::is_same_v<decltype(std::declval<limited_queue<int>&>().push(1)), future<void>>, "a bounded push hands out a future that completes when the item is admitted");
static_assert(std::is_same_v<decltype(std::declval<limited_queue<int>&>().pop()), future<int>>, "pop hands out a future of the item");
// each of the three container policies is used for what it is documented for (items, waiting pops, blocked producers): a bounded item
// container chosen for the items must not be handed the blocked producers, whose number is not bounded by the limit
template<typename X> struct QItems : primitives::std_queue<X> {};
template<typename X> struct QWaiters : primitives::std_queue<X> {};
template<typename X> struct QBlocked : primitives::std_queue<X> {};
struct Peek : limited_queue<int, QItems, QWaiters, QBlocked> {
    using items_t = decltype(_queue); using waiters_t = decltype(_awaiters); using blocked_t = decltype(_blocked);
};
static_assert(std::is_same_v<Peek::items_t, QItems<int>>, "items live in the Queue policy");
static_assert(std::is_same_v<Peek::waiters_t, QWaiters<promise<int>>>, "waiting pops live in the CoroQueue policy");
static_assert(std::is_same_v<Peek::blocked_t, QBlocked<std::pair<int, promise<void>>>>, "blocked producers (item + promise of the push) live in the BlockedQueue policy");
int main() {}
