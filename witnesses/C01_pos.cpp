// C01 type-level witnesses: each static_assert is one obligation (engine C, DESIGN 2.3)
#include <cocls/future.h>
#include <cocls/async.h>
#include "types.h"
using namespace cocls;
static_assert(!std::is_copy_constructible_v<promise<int>> && !std::is_copy_assignable_v<promise<int>>, "promise<int> must not be copyable");
static_assert(!std::is_copy_constructible_v<promise<void>> && !std::is_copy_assignable_v<promise<void>>, "promise<void> must not be copyable");
static_assert(!std::is_copy_constructible_v<promise<MoveOnly>> && !std::is_copy_assignable_v<promise<MoveOnly>>, "promise<MoveOnly> must not be copyable");
static_assert(!std::is_copy_constructible_v<promise<int&>> && !std::is_copy_assignable_v<promise<int&>>, "promise<int&> must not be copyable");
static_assert(std::is_move_constructible_v<promise<int>> && std::is_move_assignable_v<promise<int>>, "promise is movable");
static_assert(!std::is_copy_constructible_v<future<int>> && !std::is_move_constructible_v<future<int>>, "future<int> is immovable");
static_assert(!std::is_copy_assignable_v<future<int>> && !std::is_move_assignable_v<future<int>>, "future<int> is not assignable");
static_assert(!std::is_copy_constructible_v<future<void>> && !std::is_move_constructible_v<future<void>>, "future<void> is immovable");
static_assert(!std::is_copy_constructible_v<future<MoveOnly>> && !std::is_move_constructible_v<future<MoveOnly>>, "future<MoveOnly> is immovable");
static_assert(!std::is_copy_constructible_v<future<Counted>> && !std::is_move_constructible_v<future<Counted>>, "future<Counted> is immovable");
static_assert(std::is_same_v<decltype(std::declval<promise<int>&>()(1)), suspend_point<bool>>, "a resolution reports its outcome as suspend_point<bool>");
static_assert(std::is_same_v<decltype(std::declval<promise<int>&>()(drop)), suspend_point<bool>>, "drop reports its outcome as suspend_point<bool>");
int main() {}
