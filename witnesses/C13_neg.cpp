// C13 negative witnesses
#include <cocls/generator.h>
using namespace cocls;
// NEG-BEGIN copy a generator
void neg1(generator<int> &g) { generator<int> h(g); (void)h; }
// NEG-END
// NEG-BEGIN pass an argument to a generator without argument
void neg2(generator<int> &g) { int a = 1; (void)g.next(a); }
// NEG-END
// NEG-BEGIN omit the argument of a generator with argument
void neg3(generator<int,int> &g) { (void)g.next(); }
// NEG-END
int main() {}
