// C01 negative witnesses: every snippet must fail to compile
#include <cocls/future.h>
using namespace cocls;
// NEG-BEGIN copy-construct a promise
void neg1(promise<int> &p) { promise<int> q(p); (void)q; }
// NEG-END
// NEG-BEGIN copy-assign a promise
void neg2(promise<int> &p, promise<int> &q) { q = p; }
// NEG-END
// NEG-BEGIN move a future
void neg3(future<int> &f) { future<int> g(std::move(f)); (void)g; }
// NEG-END
// NEG-BEGIN write the future state from outside (protected)
void neg4(future<int> &f) { f.set(1); }
// NEG-END
// NEG-BEGIN resolve a future from outside (protected)
void neg5(future<int> &f) { f.resolve(); }
// NEG-END
int main() {}
