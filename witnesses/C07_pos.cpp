// C07 type-level witnesses
#include <cocls/mutex.h>
using namespace cocls;
static_assert(!std::is_copy_constructible_v<mutex> && !std::is_copy_assignable_v<mutex>, "mutex is not copyable");
static_assert(!std::is_move_constructible_v<mutex> && !std::is_move_assignable_v<mutex>, "mutex is not movable");
static_assert(!std::is_copy_constructible_v<mutex::ownership> && !std::is_copy_assignable_v<mutex::ownership>, "ownership is not copyable");
static_assert(std::is_move_constructible_v<mutex::ownership> && std::is_move_assignable_v<mutex::ownership>, "ownership is movable");
static_assert(std::is_same_v<decltype(std::declval<mutex&>().try_lock()), mutex::ownership>, "try_lock hands out an ownership");
static_assert(std::is_same_v<decltype(std::declval<mutex&>().lock()), co_awaiter<mutex>>, "lock() is awaited through the generic awaiter");
static_assert(sizeof(mutex::ownership) == sizeof(void *), "ownership is exactly one owning pointer (unique_ptr with an empty deleter)");
int main() {}
