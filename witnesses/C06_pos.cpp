// C06 type-level witnesses
#include <cocls/suspend_point.h>
using namespace cocls;
static_assert(!std::is_copy_constructible_v<suspend_point<void>> && !std::is_copy_assignable_v<suspend_point<void>>, "suspend_point<void> cannot be copied");
static_assert(!std::is_copy_constructible_v<suspend_point<bool>> && !std::is_copy_assignable_v<suspend_point<bool>>, "suspend_point<bool> cannot be copied");
static_assert(std::is_move_constructible_v<suspend_point<void>> && std::is_move_assignable_v<suspend_point<void>>, "suspend_point<void> is movable");
static_assert(std::is_move_constructible_v<suspend_point<bool>>, "suspend_point<bool> is movable");
static_assert(suspend_point<void>::inline_count >= 3, "three ready coroutines are carried without allocation");
static_assert(std::is_same_v<decltype(std::declval<suspend_point<bool>&>().await_resume()), bool &>, "a typed suspend point hands out its value");
static_assert(std::is_same_v<decltype(std::declval<suspend_point<void>&>().pop()), std::coroutine_handle<>>, "pop hands out a handle");
int main() {}
