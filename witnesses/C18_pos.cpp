// C18 type-level witnesses
#include <cocls/future.h>
#include <cocls/future_conv.h>
#include <cocls/callback_awaiter.h>
#include <cocls/coro_storage.h>
using namespace cocls;
using Cb = void(*)(future<int>&);
static_assert(std::has_virtual_destructor_v<future_with_cb<int, Cb>>, "future_with_cb is deleted polymorphically");
static_assert(std::is_base_of_v<future_with_cb<int, Cb>, future_with_cb_no_alloc<int, reusable_storage, Cb>>, "the storage variant is deleted through the base");
static_assert(std::is_base_of_v<awaiter, future_with_cb<int, Cb>>, "future_with_cb is its own awaiter");
static_assert(!std::is_copy_constructible_v<future_with_cb<int, Cb>>, "the helper is not copyable");
static_assert(std::is_same_v<decltype(make_promise<int>(std::declval<Cb>())), promise<int>>, "make_promise hands out the promise of the helper");
int main() {}
