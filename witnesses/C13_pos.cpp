// C13 type-level witnesses
#include <cocls/generator.h>
using namespace cocls;
static_assert(!std::is_copy_constructible_v<generator<int>> && !std::is_copy_assignable_v<generator<int>>, "generator is not copyable");
static_assert(std::is_move_constructible_v<generator<int>> && std::is_move_assignable_v<generator<int>>, "generator is movable");
static_assert(!std::is_copy_constructible_v<generator<int,int>>, "generator with argument is not copyable");
static_assert(std::is_same_v<decltype(generator<int>::promise_type::initial_suspend()), std::suspend_always>, "the body does not run before the first ask");
static_assert(noexcept(std::declval<generator<int>::promise_type&>().final_suspend()), "final_suspend is noexcept");
static_assert(std::is_same_v<decltype(std::declval<generator<int>&>()()), future<int>>, "calling the generator yields a future of the next value");
static_assert(std::is_same_v<decltype(std::declval<generator<int>&>().value()), int &>, "value() refers to the yielded object");
int main() {}
