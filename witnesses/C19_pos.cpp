// C19 type-level witnesses
#include <cocls/future.h>
#include <cocls/async.h>
#include <cocls/coro_storage.h>
#include <cocls/alloca_storage.h>
#include <vector>
using namespace cocls;
static_assert(Storage<default_storage>, "default_storage models Storage");
static_assert(Storage<reusable_storage>, "reusable_storage models Storage");
static_assert(Storage<reusable_storage_mtsafe>, "reusable_storage_mtsafe models Storage");
static_assert(Storage<stack_storage>, "stack_storage models Storage");
static_assert(Storage<placement_alloc>, "placement_alloc models Storage");
static_assert(Storage<reusable_buffer_storage<std::vector<char>>>, "reusable_buffer_storage models Storage");
static_assert(Storage<promise_extra_storage<int>>, "promise_extra_storage models Storage");
static_assert(!std::is_copy_constructible_v<reusable_storage> && std::is_move_constructible_v<reusable_storage>, "a reusable block has one owner");
static_assert(std::is_base_of_v<async_promise<int>, with_allocator<reusable_storage, async<int>>::promise_type>, "with_allocator keeps the task's promise and adds the allocator");
template<typename A> with_allocator<A, async<int>> ok_coro(A &, int x) { co_return x; }
struct Obj { with_allocator<reusable_storage, async<int>> method(reusable_storage &, int y) { co_return y; } };
void use(default_storage &a, reusable_storage &b, reusable_storage_mtsafe &c, stack_storage &d, placement_alloc &e, reusable_buffer_storage<std::vector<char>> &f, promise_extra_storage<int> &g, Obj &o) {
  (void)ok_coro(a, 1); (void)ok_coro(b, 1); (void)ok_coro(c, 1); (void)ok_coro(d, 1); (void)ok_coro(e, 1); (void)ok_coro(f, 1); (void)ok_coro(g, 1); (void)o.method(b, 1);
}
int main() {}
