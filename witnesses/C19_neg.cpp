// C19 negative witnesses
#include <cocls/future.h>
#include <cocls/async.h>
#include <cocls/coro_storage.h>
using namespace cocls;
// NEG-BEGIN with_allocator coroutine without the allocator as first parameter
with_allocator<reusable_storage, async<int>> neg1(int x) { co_return x; }
// NEG-END
// NEG-BEGIN with_allocator coroutine given a different storage type
with_allocator<reusable_storage, async<int>> neg2(placement_alloc &, int x) { co_return x; }
// NEG-END
// NEG-BEGIN copy a reusable_storage
void neg3(reusable_storage &a) { reusable_storage b(a); (void)b; }
// NEG-END
int main() {}
