// F8 (C11): thread_pool::resume(suspend_point) enqueues closures that capture a raw coroutine
// handle; enqueue() drops the closure when the pool is stopped, so the ready coroutine is neither
// run nor cancelled. thread_pool::run(async&) goes through resume().
// build: clang++ -std=gnu++20 -I/repo/src -O0 -g -DNDEBUG F8_thread_pool_forgets_submission.cpp -pthread
// observed on 291b7ff: run(fn) after stop: pending=0 has_value=0 (cancelled, fine);
//   resume(suspend_point) after stop: waiter state=1 (suspended forever);
//   run(async) after stop: ran=0 pending=1 (future pending forever).
#include <cocls/thread_pool.h>
#include <cstdio>
static int ran = 0;
cocls::async<int> work() { ran++; co_return 7; }
cocls::async<void> waiter(cocls::future<int> &f, int &state) { state = 1; try { co_await f; state = 2; } catch (...) { state = 3; } }
int main() {
  setvbuf(stdout,0,_IONBF,0);
  cocls::thread_pool pool(1);
  pool.stop();
  {
    auto f = pool.run([]{ return 1; });          // closure owns the promise: cancelled observably
    printf("run(fn) after stop: pending=%d has_value=%d\n", (int)f.pending(), (int)(f.pending()?-1:(int)(bool)f.has_value()));
  }
  {
    cocls::future<int> f; auto p = f.get_promise(); int st = 0;
    waiter(f, st).detach();
    pool.resume(p(5));                           // ready coroutine handed to a stopped pool
    printf("resume(suspend_point) after stop: waiter state=%d (1 = still suspended forever, frame leaked)\n", st);
  }
  {
    auto *f = new cocls::future<int>(pool.run(work()));   // heap: destructor of a pending future asserts
    printf("run(async) after stop: ran=%d pending=%d (pending forever => waiter would hang)\n", ran, (int)f->pending());
  }
}
