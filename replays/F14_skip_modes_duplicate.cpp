// F14 replay: a skipping subscriber that was parked when several values arrive at once receives the same value twice.
// build: g++ -std=gnu++20 -O1 -g -I/repo/src F14_skip_modes_duplicate.cpp -pthread -o f14
// expected on a correct tree: exit 0.  On the defective tree: prints the duplicate and exits 1.
#include <cocls/publisher.h>
#include <cocls/async.h>
#include <vector>
#include <cstdio>
using namespace cocls;

static std::vector<int> got;

async<void> reader(publisher<int> &pub, subscribtion_type t, int n) {
    subscriber<int> s(pub, t);
    for (int i = 0; i < n; i++) {
        bool ok = co_await s.next();
        if (!ok) break;
        got.push_back(s.value());
    }
}

static int run(subscribtion_type t, const char *name, std::size_t maxlen) {
    got.clear();
    publisher<int> pub(maxlen, 1);
    reader(pub, t, 2).detach();          // parks in next()
    std::vector<int> vals = {1, 2, 3};
    pub.publish(vals.begin(), vals.end()); // three values at once wake the parked reader, it reads twice
    pub.close();
    std::printf("%s:", name);
    for (int v : got) std::printf(" %d", v);
    std::printf("\n");
    for (std::size_t i = 1; i < got.size(); i++) if (got[i] <= got[i-1]) {
        std::printf("  value %d delivered after %d: positions do not strictly increase\n", got[i], got[i-1]);
        return 1;
    }
    return 0;
}

int main() {
    int r = 0;
    r |= run(subscribtion_type::skip_to_recent, "skip_to_recent", 100);
    r |= run(subscribtion_type::skip_if_behind, "skip_if_behind(max_queue_len=2)", 2);
    return r;
}
