// F5 (C12): the stop_callback of scheduler::interval locks _mx and calls cancel(), whose remove()
// locks _mx again (std::mutex, not recursive).
// build: clang++ -std=gnu++20 -I/repo/src -O0 -g F5_interval_stop_deadlock.cpp -pthread
// observed on 291b7ff: "requesting stop..." then the watchdog prints
//   "HANG: request_stop did not return within 3s".
#include <cocls/scheduler.h>
#include <cstdio>
// stop-token cancellation of interval(): the stop callback locks _mx then calls cancel() which locks _mx again
int main() {
  setvbuf(stdout,0,_IONBF,0);
  cocls::scheduler sch; std::stop_source src;
  auto gen = sch.interval(std::chrono::seconds(5), src.get_token());
  auto f = gen();            // generator now sleeps on the scheduler
  printf("requesting stop...\n");
  std::thread wd([]{ std::this_thread::sleep_for(std::chrono::seconds(3)); printf("HANG: request_stop did not return within 3s\n"); _exit(3); });
  wd.detach();
  src.request_stop();
  printf("stop returned, f.has_value=%d\n", (int)(bool)f.has_value());
}
