// F4 (C12): scheduler::remove re-evaluates _scheduled[0] after pop_item() removed the last entry.
// build: clang++ -std=gnu++20 -I/repo/src -O0 -g -D_GLIBCXX_ASSERTIONS F4_scheduler_remove_oob.cpp -pthread
// observed on 291b7ff: cancel b -> 1, cancel b again -> 0, a ready=1, then
//   "stl_vector.h:1123: ... Assertion '__n < this->size()' failed" in the third cancel.
#include <cocls/scheduler.h>
#include <cstdio>
int main() { setvbuf(stdout,0,_IONBF,0);
  cocls::scheduler sch; int a, b;
  auto now = std::chrono::system_clock::now();
  auto fa = sch.sleep_until(now + std::chrono::seconds(1), &a);
  auto fb = sch.sleep_until(now + std::chrono::seconds(2), &b);
  bool r1 = sch.cancel(&b); printf("cancel b -> %d\n", (int)r1);
  bool r2 = sch.cancel(&b); printf("cancel b again -> %d\n", (int)r2);
  auto e = sch.get_expired(now + std::chrono::milliseconds(1500));   // expire a
  if (std::holds_alternative<cocls::scheduler::promise>(e)) std::get<cocls::scheduler::promise>(e)();
  printf("a ready=%d\n", (int)fa.ready());
  bool r3 = sch.cancel(&b); printf("cancel b third -> %d\n", (int)r3);
}
