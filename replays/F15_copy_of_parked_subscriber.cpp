// F15 replay: a copy made of a subscriber that is parked in next() does not continue from the original's position:
//  (a) values published after the copy: the copy skips the first one (gap);
//  (b) asked before anything is published, the copy reports end-of-stream although the publisher is open.
// build: g++ -std=gnu++20 -O1 -g -I/repo/src F15_copy_of_parked_subscriber.cpp -pthread -o f15
// expected on a correct tree: exit 0.
#include <cocls/publisher.h>
#include <cocls/async.h>
#include <cstdio>
using namespace cocls;

static subscriber<int> *parked = nullptr;
static int orig_got = -1;

async<void> reader(publisher<int> &pub) {
    subscriber<int> s(pub);
    parked = &s;
    if (co_await s.next()) orig_got = s.value();   // parks here
    parked = nullptr;
}

int main() {
    int rc = 0;
    {   // (a)
        publisher<int> pub;
        reader(pub).detach();                 // the reader is parked, nothing was published yet
        if (!parked) {std::puts("reader did not park"); return 2;}
        subscriber<int> copy(*parked);        // copy of the parked subscriber
        pub.publish(7);                        // wakes the original, which reads 7
        pub.publish(8);
        bool ok = copy.next();                 // a value is available: does not block
        std::printf("(a) original got %d, copy got %s%d (expected 7)\n", orig_got, ok ? "" : "EOF ", ok ? copy.value() : 0);
        if (!(orig_got == 7 && ok && copy.value() == 7)) rc = 1;
    }
    {   // (b)
        orig_got = -1;
        publisher<int> pub;
        reader(pub).detach();
        if (!parked) {std::puts("reader did not park"); return 2;}
        subscriber<int> copy(*parked);
        auto n = copy.next();
        bool ready = n.await_ready();          // nothing published: the copy must have to wait
        bool eof = ready && !n.await_resume();
        std::printf("(b) copy before any publish: %s\n", ready ? (eof ? "END OF STREAM on an open publisher" : "value?") : "has to wait (correct)");
        if (ready) rc = 1;
        pub.close();
    }
    return rc;
}
