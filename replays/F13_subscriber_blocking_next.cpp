// F13 (C16): subscriber<T>::next_awt::operator bool on the *blocking* path (no value ready yet) calls co_awaiter<subscriber>::wait(),
// which is { sync(); return await_resume(); } of the BASE class: co_awaiter::await_resume() returns _owner.value() (the previous /
// an empty optional's content, converted to bool) instead of next_awt::await_resume() = check_next(). The value just published is
// never fetched: a blocking next() that had to wait returns the truth value of the OLD value, or dereferences an empty optional.
// build: clang++ -std=gnu++20 -I/repo/src -O0 -g -fsanitize=address,undefined F13_subscriber_blocking_next.cpp -pthread
// observed on 755e6bf (before the fix): value seen after the blocking next() is not the published one (prints "got 0 expected 7"
// or UBSan/ASan report on the empty optional); after the fix prints "got 7 expected 7" and exits 0.
#include <cocls/publisher.h>
#include <thread>
#include <chrono>
#include <cstdio>
int main() {
    cocls::publisher<int> pub;
    cocls::subscriber<int> sub(pub);
    std::thread t([&]{ std::this_thread::sleep_for(std::chrono::milliseconds(200)); pub.publish(7); });
    bool ok = sub.next();            // nothing published yet: blocks until the publisher thread publishes 7
    int got = ok ? sub.value() : -1;
    t.join();
    std::printf("next()=%d got %d expected 7\n", (int)ok, got);
    return (ok && got == 7) ? 0 : 1;
}
