// F7 (C16): publisher::queue::advance_suspend_lk returns false ("do not suspend, go and read")
// on the _closed edge without advancing the subscriber's position. co_await sub.next() is
// await_ready(); await_suspend(); await_resume(); - a close() landing between the first two
// (another thread) makes await_resume() deliver the previous value again.
// build: clang++ -std=gnu++20 -I/repo/src -O0 -g F7_publisher_close_duplicate.cpp -pthread
// observed on 291b7ff: "await_resume -> 1 value=1 pos=1" (value 1 delivered twice).
#include <cocls/publisher.h>
#include <cstdio>
int main() {
  setvbuf(stdout,0,_IONBF,0);
  cocls::publisher<int> pub;
  cocls::subscriber<int> sub(pub);
  pub.publish(1);
  bool a = sub.next(); printf("next -> %d value=%d pos=%zu\n", (int)a, a?sub.value():-1, sub.position());
  // co_await sub.next() == await_ready(); await_suspend()->subscribe(); await_resume(); close() lands between the first two
  auto awt = sub.next();
  bool r = awt.await_ready();               printf("await_ready -> %d (nothing new)\n", (int)r);
  pub.close();                              printf("publisher closed by another party\n");
  cocls::sync_awaiter sa;
  bool s = awt.subscribe(&sa);              printf("subscribe -> %d (0 = do not suspend)\n", (int)s);
  bool v = awt.await_resume();              printf("await_resume -> %d value=%d pos=%zu   <- duplicate of value 1 if 1\n", (int)v, v?sub.value():-1, sub.position());
  bool e = sub.next();                      printf("next -> %d (EOF expected)\n", (int)e);
}
