// F2 (C03/C07): mutex::subscribe reads aw->_next (mutex.h:194) after aw->subscribe(_requests)
// published the awaiter; the owner's build_queue (mutex.h:219) writes the same field concurrently.
// build: clang++ -std=gnu++20 -I/repo/src -O0 -g -DNDEBUG -fsanitize=thread F2_mutex_touch_after_publish.cpp -pthread
// run:   ./a.out 8 5000   (repeat a few times; -O0 on purpose: at -O1 the compiler forwards _next from the CAS)
// observed on 291b7ff: TSan data race mutex.h:194 (read) vs mutex.h:219 (write), about 1 run in 3;
//   without -DNDEBUG the same race is reported at awaiter.h:71 (assert after the CAS).
#include <cocls/mutex.h>
#include <thread>
#include <vector>
#include <cstdio>
int main(int argc, char **argv) {
  int N = argc > 1 ? atoi(argv[1]) : 4; int R = argc > 2 ? atoi(argv[2]) : 20000;
  cocls::mutex mx; long counter = 0; std::atomic<int> inside{0}; std::atomic<long> overlaps{0};
  std::vector<std::thread> th;
  for (int t = 0; t < N; t++) th.emplace_back([&]{
    for (int i = 0; i < R; i++) {
      cocls::mutex::ownership own = mx.lock().wait();
      if (inside.fetch_add(1) != 0) overlaps++;
      counter++;
      inside.fetch_sub(1);
      own.release();
    }
  });
  for (auto &t: th) t.join();
  printf("counter=%ld expected=%ld overlaps=%ld\n", counter, (long)N*R, overlaps.load());
}
