// F17 (C12): scheduler::remove's search matches an entry by identifier even when its promise has already been
// taken out by an earlier cancel (cancelled entries stay in the heap as empty promises until they surface), so a
// later cancel(id) may hit the stale entry, report false and leave a live sleep with that identifier pending.
// build: clang++ -std=gnu++20 -I/repo/src -O0 -g F17_cancel_matches_stale_entry.cpp -pthread
// observed on 8cb7f1e: "first cancel x -> 1", "second cancel x -> 0", "fc ready=0"  (exit 1)
// after the fix:      "first cancel x -> 1", "second cancel x -> 1", "fc ready=1, cancelled"  (exit 0)
#include <cocls/scheduler.h>
#include <cstdio>
int main() { setvbuf(stdout,0,_IONBF,0);
  cocls::scheduler sch; int x, y;
  auto now = std::chrono::system_clock::now();
  auto fb = sch.sleep_until(now + std::chrono::seconds(5), &y);      // top of the heap
  auto fa = sch.sleep_until(now + std::chrono::seconds(10), &x);     // non-top, identifier x
  bool r1 = sch.cancel(&x); printf("first cancel x -> %d\n", (int)r1);   // entry stays in the heap, promise empty
  auto fc = sch.sleep_until(now + std::chrono::seconds(20), &x);     // a new sleep re-uses the identifier
  bool r2 = sch.cancel(&x); printf("second cancel x -> %d\n", (int)r2);  // must cancel fc and report true
  bool cancelled = false;
  if (fc.ready()) { try { fc.value(); } catch (const cocls::await_canceled_exception &) { cancelled = true; } }
  printf("fc ready=%d%s\n", (int)fc.ready(), cancelled ? ", cancelled" : "");
  bool ok = r1 && r2 && cancelled;
  // tidy up so that the futures do not outlive pending promises
  sch.cancel(&y); sch.cancel(&x);
  return ok ? 0 : 1;
}
