// F12 (C03): mutex::build_queue evaluates assert(_queue == nullptr) BEFORE its acquiring exchange. A requester that finds
// the mutex free (its push CAS is release-only) enters build_queue(aw) and reads _queue without having acquired the previous
// owner's writes to _queue: a formal data race in assert-enabled builds (the default CMake build type), reported by TSan.
// build: clang++ -std=gnu++20 -I/repo/src -O1 -g -UNDEBUG -fsanitize=thread F12_build_queue_assert_before_acquire.cpp -pthread
// observed on 12eca04 (before the fix): "WARNING: ThreadSanitizer: data race" read mutex.h:211 (build_queue) vs write mutex.h:171/221;
// silent once the assertion is evaluated after the exchange.
#include <cocls/mutex.h>
#include <thread>
#include <atomic>
#include <cstdio>
int main() {
    cocls::mutex mx; long shared = 0; std::atomic<bool> go{false};
    auto body = [&]{ while (!go.load()) {} for (int i = 0; i < 20000; i++) { auto o = mx.lock().wait(); ++shared; o.release(); } };
    std::thread a(body), b(body), c(body); go = true; a.join(); b.join(); c.join();
    std::printf("shared=%ld\n", shared); return shared == 60000 ? 0 : 1;
}
