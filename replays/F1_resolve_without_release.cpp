// F1 (C03): awaiter::resume_chain_set_ready exchanges with memory_order_acquire only, so the
// payload written by future::set is not released to a thread that learns readiness through
// future::ready() (acquire load) and then reads the value.
// build: clang++ -std=gnu++20 -I/repo/src -O1 -g -fsanitize=thread F1_resolve_without_release.cpp -pthread
// observed on 291b7ff: "WARNING: ThreadSanitizer: data race" future<Big>::set (future.h:555/557)
//   vs future<Big>::value (future.h:339); silent when awaiter.h:96 uses memory_order_acq_rel.
// D1: resolver publishes payload; poller uses ready() (acquire) then reads value
#include <cocls/future.h>
#include <thread>
#include <cstdio>
struct Big { long a[8]; };
int main() {
  for (int i = 0; i < 200; i++) {
    cocls::future<Big> f;
    cocls::promise<Big> p = f.get_promise();
    std::thread t([&]{ Big b; for (auto &x: b.a) x = i; p(b); });
    while (!f.ready()) {}
    long s = 0; for (auto x: f.value().a) s += x;
    if (s != 8L*i) { printf("BAD\n"); return 1; }
    t.join();
  }
  puts("done");
}
