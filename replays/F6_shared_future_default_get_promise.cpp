// F6 (C17): shared_future::init_if_needed tests `if (_ptr)` instead of `if (!_ptr)`, so
// get_promise() on a default-constructed shared_future dereferences a null pointer.
// build: clang++ -std=gnu++20 -I/repo/src -O0 -g -fsanitize=address,undefined F6_shared_future_default_get_promise.cpp -pthread
// observed on 291b7ff: UBSan "member call on null pointer of type 'cocls::future<int>'" at
//   shared_future.h:142, then a crash.
#include <cocls/shared_future.h>
#include <cstdio>
int main() {
  cocls::shared_future<int> f;
  auto p = f.get_promise();
  p(42);
  printf("%d\n", f.wait());
}
