// F16 replay: a range publish whose element copy throws part-way leaves the already copied elements in the queue without
// advancing the stream position: every later read is shifted - subscribers see a value twice / out of order.
// build: g++ -std=gnu++20 -O1 -g -I/repo/src F16_range_publish_throw.cpp -pthread -o f16
// expected on a correct tree: exit 0 (the failed publish publishes nothing, or exactly what it inserted; the stream stays consistent)
#include <cocls/publisher.h>
#include <cstdio>
#include <stdexcept>
#include <vector>
using namespace cocls;

struct V {
    int v; static int fuse;
    V(int v = 0):v(v) {}
    V(const V &o):v(o.v) { if (fuse > 0 && --fuse == 0) throw std::runtime_error("copy failed"); }
    V &operator=(const V &) = default;
};
int V::fuse = 0;

int main() {
    publisher<V> pub;
    subscriber<V> s(pub);
    pub.publish(V(1));
    std::vector<V> batch; batch.reserve(3); batch.emplace_back(2); batch.emplace_back(3); batch.emplace_back(4);
    V::fuse = 3;   // third copy made by the range publish throws: 2 and 3 are already in the queue (the second copy is the one into the deque node? keep generous)
    try { pub.publish(batch.begin(), batch.end()); std::puts("range publish did not throw?"); } catch (const std::exception &e) { std::printf("range publish threw: %s\n", e.what()); }
    V::fuse = 0;
    pub.publish(V(5));
    pub.close();
    std::vector<int> got;
    while (s.next()) got.push_back(s.value().v);
    std::printf("subscriber saw:");
    for (int x : got) std::printf(" %d", x);
    std::printf("\n");
    // acceptable: 1 5 (failed publish rolled back) or 1 2 3 5 (what was inserted is published) - in order, no duplicates
    for (std::size_t i = 1; i < got.size(); i++) if (got[i] <= got[i-1]) { std::puts("  out of order / duplicate"); return 1; }
    if (got.empty() || got.front() != 1 || got.back() != 5) { std::puts("  lost the first or the last value"); return 1; }
    return 0;
}
