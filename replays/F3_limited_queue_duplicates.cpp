// F3 (C10): limited_queue::push emplaces the item into the queue and, when the queue then holds
// >= limit items, stores it a second time (second std::forward of the same pack) in _blocked.
// build: clang++ -std=gnu++20 -I/repo/src -O0 -g F3_limited_queue_duplicates.cpp -pthread
// observed on 291b7ff (limit 2): push A ready, push B blocked with size 2, push C blocked with
//   size 3; five pops deliver A, B, C, '', '' (two moved-from duplicates).
#include <cocls/queue.h>
#include <cstdio>
#include <string>
int main() {
  cocls::limited_queue<std::string> q(2);
  auto f1 = q.push(std::string("A")); printf("push A ready=%d size=%zu\n", (int)f1.ready(), q.size());
  auto f2 = q.push(std::string("B")); printf("push B ready=%d size=%zu\n", (int)f2.ready(), q.size());
  auto f3 = q.push(std::string("C")); printf("push C ready=%d size=%zu\n", (int)f3.ready(), q.size());
  for (int i = 0; i < 5 && q.size(); i++) { auto p = q.pop(); printf("pop -> '%s' (size now %zu) f2.ready=%d f3.ready=%d\n", p.wait().c_str(), q.size(), (int)f2.ready(), (int)f3.ready()); }
}
