// instantiation matrix, part 4: members no repository TU and no other driver instantiates (secondary accessors, rarely used overloads)
#include <cocls/future.h>
#include <cocls/async.h>
#include <cocls/shared_future.h>
#include <cocls/generator.h>
#include <cocls/queue.h>
#include <cocls/generics.h>
#include <cocls/callback_awaiter.h>
#include "types.h"
using namespace cocls;
struct Target { suspend_point<void> woke(awaiter *) noexcept { return {}; } };
static generator<int> few() { co_yield 1; co_yield 2; }
void more_future(promise<int> &p, future<int> &f) {
  { shared_future<int> s([](promise<int> q){ q(1); }); s.join(); }
  { auto b = p.bind(5); b(); }
  { promise_with_default<int> a(promise<int>(), 1), b(promise<int>(), 2); a = std::move(b); }
  { promise_with_default_v<int, 3> a; promise_with_default_v<int, 3> b(std::move(a)); (void)b; }
  { static const int dv = 7; promise_with_default_vp<int, &dv> a; (void)a; }
  { co_awaiter<future<int>> ca(f); awaiter_wrapper w(ca); (void)w.await_ready(); }
  { Target t; call_fn_awaiter<Target, &Target::woke> a(&t); a.resume(); }
  { suspend_point<int> sp(suspend_point<void>(), 4); const int &c = sp; (void)c; }
  { primitives::single_item_queue<int> q; q.emplace(1); (void)q.front(); (void)q.size(); }
}
void more_generator() {
  auto g = few();
  for (auto it = g.begin(); it != g.end(); ++it) { int v = *it; (void)v; }
}
