// C20 driver: odr-uses the core synchronisation primitives for value types that do not allocate themselves.
// Compiled to LLVM IR only (never run); the call graph of the emitted functions is analysed by engine/coclint/irreach.py
#include <cocls/future.h>
#include <cocls/async.h>
#include <cocls/mutex.h>
#include <cocls/generator.h>
#include <cocls/callback_awaiter.h>
#include <cocls/coro_storage.h>
using namespace cocls;
struct MO { int v; MO(int v):v(v){} MO(MO&&)=default; MO(const MO&)=delete; };
struct Big { long a[8]; };
static suspend_point<void> cb(awaiter *, void *) noexcept { return {}; }
generator<int> gen() { for (int i=0;;++i) co_yield i; }
generator<int,int> gen2() { int a = co_yield nullptr; for(;;) a = co_yield a; }
generator<Big> gen3() { for (;;) { co_yield Big{}; Big b{}; co_yield std::move(b); } }       // stepping a synchronous generator that yields temporaries
async<int> co(future<int> &f, mutex &mx) { auto o = co_await mx.lock(); int v = co_await f; bool h = co_await f.has_value(); co_await o.release(); co_return v+h; }
async<void> cov(future<void> &f, promise<int> &p) { co_await f; co_await p(1); }
void drv(promise<int> &pi, promise<void> &pv, promise<MO> &pm, promise<int&> &pr, int &ref, std::coroutine_handle<> h) {
  future<int> f; auto p = f.get_promise(); p(1); p(drop); p(std::exception_ptr()); p.set_exception({}); f.ready(); f.pending(); f.initialized(); f.wait(); f.sync(); f.force_sync(); (void)f.force_wait(); (void)(bool)f.has_value(); (void)*f; f.value();
  promise<int> p2(std::move(p)); promise<int> p3; p3 = std::move(p2); (void)(bool)p3; (void)!p3; p3.get_id();
  future<void> fv; auto q = fv.get_promise(); q(); fv.wait();
  future<MO> fm; auto p4 = fm.get_promise(); p4(5); fm.wait();
  future<Big> fb; auto p5 = fb.get_promise(); p5(Big{}); (void)fb.wait();
  future<int&> fr; auto p6 = fr.get_promise(); p6(ref); fr.wait();
  future<int> f2([&](promise<int> pp){ pi = std::move(pp); }); co_awaiter<future<int>> aw(f2); malleable_awaiter ma; ma.set_resume_fn(&cb, nullptr); if (!aw.subscribe(&ma)) ma.resume(); aw.await_ready(); aw.await_suspend(h); aw.await_suspend(&cb, nullptr); pi(3);
  sync_awaiter sa; sa.wakeup(); sa.wait_sync();
  future<int> f3 = future<int>::set_value(1); future<int> f4 = future<int>::set_exception({}); future<int> f5 = future<int>::set_not_value();
  f3 << []{ return future<int>::set_value(2); };
  mutex mx; { auto o = mx.lock().wait(); auto t = mx.try_lock(); (void)(bool)t; (void)!t; o.release(); } { mutex::ownership o(mx.lock()); mutex::ownership o2(std::move(o)); } mx.lock().sync();
  suspend_point<void> sp; suspend_point<void> spa(h); suspend_point<void> sp2(std::move(sp)); sp2 << std::move(spa); sp2 << std::coroutine_handle<>(h); sp2 = suspend_point<void>(h); sp2.size(); sp2.empty(); sp2.pop(); sp2.await_ready(); sp2.await_suspend(h); sp2.suspend_now(); sp2.clear();
  suspend_point<bool> sb(true); suspend_point<bool> sb2(h, false); suspend_point<bool> sb3(std::move(sp2), true); (void)(bool)sb3; sb3.await_resume();
  auto g = gen(); (void)(bool)g.next(); g.value(); for (auto it = g.begin(); it != g.end(); ++it) { (void)*it; break; } g.done(); (void)(bool)g;
  auto g2 = gen2(); int a = 1; (void)(bool)g2.next(a);
  auto g3 = gen3(); (void)(bool)g3.next(); (void)g3.value(); { future<Big> fg = g3(); (void)fg.wait(); }
  // deferred resolution: the bound promise is a callable carrying the promise and the value
  { future<int> fbnd; auto bnd = fbnd.get_promise().bind(7); bnd(); fbnd.wait(); } { future<void> fbv; auto bnd = fbv.get_promise().bind(); bnd(); fbv.wait(); }
  co(f2, mx).detach(); cov(fv, pi).detach(); (void)pv; (void)pm; (void)pr;
  // awaiting by the callback awaiter, frame in a caller-supplied buffer, callbacks with small and large captures, value and void results
  static char buf1[1024], buf2[1024], buf3[1024]; placement_alloc st1(buf1), st2(buf2), st3(buf3);
  struct BigCb { long pad[16]; void operator()(await_result<int> r) const { if (r) (void)*r; } };
  callback_await_alloc<placement_alloc, future<int> &>(st1, BigCb{}, f2);
  callback_await_alloc<placement_alloc, future<int> &>(st2, [&ref](await_result<int> r) { if (r) ref = *r; }, f2);
  struct BigCbV { long pad[16]; void operator()(await_result<void> r) const { r.get(); } };
  callback_await_alloc<placement_alloc, future<void> &>(st3, BigCbV{}, fv);
}
