// instantiation matrix: thread_pool / scheduler / generator / aggregator / storage policies
#include <cocls/thread_pool.h>
#include <cocls/scheduler.h>
#include <cocls/generator.h>
#include <cocls/generator_aggregator.h>
#include <cocls/coro_storage.h>
#include <cocls/alloca_storage.h>
#include <vector>
#include "types.h"
using namespace cocls;
async<int> job(int x) { co_return x; }
async<void> pooled(thread_pool &pool, future<int> &f) {
  co_await pool; int v = co_await pool(f); (void)v; co_await thread_pool::current(); thread_pool::current::is_stopped(); thread_pool::current::any_enqueued();
}
void use_pool(promise<int> &p, future<int> &f) {
  thread_pool pool(2); pooled(pool, f).detach();
  pool.run_detached([]{}); pool.run([]{ return 1; }).wait(); pool.run([]{}).wait();
  { auto a = job(1); pool.run(a).wait(); pool.run(job(2)).wait(); }
  { bool w = pool.resume(p(3)); (void)w; auto sp = p(4); pool.resume(sp); suspend_point<void> spv; pool.resume(spv); }
  pool.is_stopped(); pool.any_enqueued(); is_current(pool); pool.stop();
}
async<void> sleeper(scheduler &sch) { co_await sch.sleep_for(std::chrono::milliseconds(1)); co_await sch.sleep_until(std::chrono::system_clock::now(), &sch); }
void use_scheduler(future<int> &f, future<void> &fv) {
  scheduler sch; sleeper(sch).detach(); { bool c = sch.cancel(&sch); (void)c; bool c2 = sch.cancel(&sch, std::make_exception_ptr(1)); (void)c2; }
  auto e = sch.get_expired(std::chrono::system_clock::now()); (void)e; auto r = sch.remove(&sch); (void)(bool)r;
  future<void> sf; sch.schedule(nullptr, sf.get_promise(), std::chrono::system_clock::now());
  int v = sch.start(f); (void)v; sch.start(fv);
  std::stop_source ss; auto g = sch.interval(std::chrono::milliseconds(1), ss.get_token()); auto tick = g(); ss.request_stop();
  thread_pool pool(1); scheduler s2(pool); std::thread t; scheduler s3(t); scheduler s4; s4.start_thread(); s4.start(pool);
}
generator<int> fin(int n) { for (int i = 0; i < n; i++) co_yield i; }
generator<int> fin_async(future<int> &f) { int v = co_await f; co_yield v; int w = 2; co_yield w; }
generator<int,int> echo() { int a = co_yield nullptr; for (;;) a = co_yield a * 2; }
generator<MoveOnly> gmo() { co_yield MoveOnly(1); }
async<void> gen_consumer(generator<int> g, generator<int,int> g2) { while (co_await g.next()) { (void)g.value(); } int a = 1; co_await g2.next(a); auto fu = g(); co_await fu.has_value(); }
void use_generator(future<int> &f) {
  auto g = fin(3); while (g.next()) { (void)g.value(); } (void)!g.next(); g.done(); (void)(bool)g; g.get_id();
  auto g1 = fin(3); for (int &x : g1) { (void)x; } auto g2 = fin(2); auto it = g2.begin(); (void)*it; it.operator->(); ++it; it++; (void)(it == g2.end()); (void)(it != g2.end());
  auto g3 = fin(2); future<int> v = g3(); (void)(bool)v.has_value(); v << g3; auto g4 = fin_async(f); (void)(bool)g4.next();
  auto e = echo(); int a = 1; (void)(bool)e.next(a); e(a).wait(); auto m = gmo(); (void)(bool)m.next(); generator<int> empty; generator<int> moved(std::move(g)); empty = std::move(moved);
  gen_consumer(fin(1), echo()).detach();
  std::vector<generator<int>> v1; v1.push_back(fin(2)); v1.push_back(fin_async(f)); auto ag = generator_aggregator(std::move(v1)); while (ag.next()) { (void)ag.value(); }
  std::vector<generator<int,int>> v2; v2.push_back(echo()); auto ag2 = generator_aggregator(std::move(v2)); int b = 1; (void)(bool)ag2.next(b);
}
template<typename A> with_allocator<A, async<int>> alloc_coro(A &, int x) { co_return x; }
struct Obj { int x; with_allocator<reusable_storage, async<int>> method(reusable_storage &, int y) { co_return x + y; } };
void use_storage() {
  default_storage ds; alloc_coro(ds, 1).join();
  reusable_storage rs; alloc_coro(rs, 2).join(); rs.capacity(); reusable_storage rs2(std::move(rs)); rs = std::move(rs2); Obj o{1}; o.method(rs, 1).join();
  reusable_storage_mtsafe ms; alloc_coro(ms, 3).join();
  static std::size_t st = 0; stack_storage ss(st); ss = alloca(ss); alloc_coro(ss, 4).join();
  char buf[512]; placement_alloc pa(buf); alloc_coro(pa, 5).join();
  std::vector<char> vb; reusable_buffer_storage<std::vector<char>> rb(vb); alloc_coro(rb, 6).join();
  promise_extra_storage<Counted> pe([]{ return Counted(1); }); auto c = alloc_coro(pe, 7); (void)pe->v; (void)(*pe).v; c.join();
  promise_extra_storage<int, reusable_storage_mtsafe> pe2([]{ return 1; }); alloc_coro(pe2, 8).join();
}
void drive_all(promise<int> &p, future<int> &f, future<void> &fv) { use_pool(p, f); use_scheduler(f, fv); use_generator(f); use_storage(); }
