// instantiation matrix: future / promise / awaiter / async / shared_future / adapters
#include <cocls/future.h>
#include <cocls/async.h>
#include <cocls/shared_future.h>
#include <cocls/callback_awaiter.h>
#include <cocls/future_conv.h>
#include <cocls/coro_storage.h>
#include <cocls/resume.h>
#include <cocls/self.h>
#include "types.h"
using namespace cocls;
static suspend_point<void> cb(awaiter *, void *) noexcept { return {}; }
template<typename T, typename ... A> void use_future(A ... a) {
  future<T> f; promise<T> p = f.get_promise(); promise<T> p2(std::move(p)); promise<T> p3; p3 = std::move(p2);
  (void)(bool)p3; (void)!p3; p3.get_id();
  { bool w = p3(static_cast<A&&>(a)...); (void)w; } { bool w = p3(drop); (void)w; } { bool w = p3(std::exception_ptr()); (void)w; } p3.set_exception({});
  f.initialized(); f.pending(); f.ready(); f.sync(); f.force_sync(); (void)(bool)f; (void)!f; (void)(bool)f.has_value();
  try { (void)f.wait(); (void)f.force_wait(); (void)f.value(); const future<T> &cf = f; (void)cf.value(); } catch (...) {}
  future<T> g([](promise<T> q){ q(drop); }); future<T> h([]{ return future<T>::set_not_value(); }); h << []{ return future<T>::set_exception({}); };
  co_awaiter<future<T>> aw(f); malleable_awaiter ma; ma.set_resume_fn(&cb); if (!aw.subscribe(&ma)) ma.resume(); aw.await_ready(); aw.await_suspend(&cb, nullptr);
  auto bound = future<T>([](promise<T> q){ q(drop);});
}
template<typename T> async<T> leaf(T v) { co_return v; }
async<void> leafv() { co_return; }
async<int> thrower() { throw 1; co_return 0; }
template<typename T> async<T> chain(future<T> &f, promise<T> &p, suspend_point<bool> sp) {
  auto me = co_await self(); (void)me;
  auto &&a = co_await leaf<T>(T{}); (void)a;   // co_await of async
  T &b = co_await f;                    // co_await of future
  bool hv = co_await f.has_value(); (void)hv;
  co_await p(T{});                      // awaited suspend point
  co_await sp; co_await cocls::pause();
  co_await parallel(f);
  co_return std::move(b);
}
void use_parallel_resume(promise<int> &p) {
  // resuming the prepared coroutines in another thread while the attached value stays with the caller (bool, class-type and void payloads)
  { bool ok = parallel_resume(p(1)); (void)ok; }
  { suspend_point<Counted> s(suspend_point<void>(), Counted(1)); Counted m = parallel_resume(std::move(s)); (void)m; }
  { suspend_point<void> s; parallel_resume(std::move(s)); }
}
void use_async(promise<int> &p, future<int> &f) {
  leaf<int>(1).detach(); { auto s = leaf<int>(1).detach(); s.clear(); }
  { auto a = leaf<int>(2); future<int> r = a.start(); r.wait(); }
  { auto a = leaf<int>(3); bool ok = a.start(p); (void)ok; a.start(std::move(p)); }
  { int v = leaf<int>(4).join(); (void)v; leafv().join(); }
  { future<int> r(leaf<int>(5)); r.wait(); future<int> r2 = leaf<int>(6)(); r2.wait(); auto a = leaf<int>(7); future<int> r3(a); r3.wait(); }
  { auto a = leaf<int>(8); async<int> b(std::move(a)); }
  { future<int> r = thrower().start(); try { r.wait(); } catch (...) {} }
  chain<int>(f, p, suspend_point<bool>(true)).detach();
  future<MoveOnly> fm; promise<MoveOnly> pm = fm.get_promise(); chain<MoveOnly>(fm, pm, suspend_point<bool>(false)).detach();
}
future<int> coro_future(int x) { co_return x; }
struct Ctx {
  int conv1(int &x) { return x; } void conv1v(int &) {} int conv0() { return 0; } void conv0v() {}
  suspend_point<void> conv2(int &x, promise<int> &p) { return p(x); } suspend_point<void> conv3(promise<int> &p) { return p(1); }
  suspend_point<void> done(future<int> &) noexcept { return {}; }
};
static int fconv(int &x) { return x; } static void fconvv(int &) {} static int fconvc(int &x, Ctx *) { return x; }
void use_adapters(Ctx &c) {
  auto src = []{ return future<int>::set_value(1); }; auto srcv = []{ return future<void>::set_value(); };
  future_conv<&Ctx::conv1> a(&c); (a << src).wait(); future_conv<&Ctx::conv1v> av(&c); (av << src).wait();
  future_conv<&Ctx::conv0> b(&c); (b << srcv).wait(); future_conv<&Ctx::conv0v> bv(&c); (bv << srcv).wait();
  future_conv<&Ctx::conv2> d(&c); (d << src).wait(); future_conv<&Ctx::conv3> e(&c); (e << srcv).wait();
  future_conv<&fconv> f; (f << src).wait(); future_conv<&fconvv> fv; (fv << src).wait(); future_conv<&fconvc> g(&c); (g << src).wait();
  { future<int> o([&](promise<int> p){ a(std::move(p)) << src; }); o.wait(); }
  call_fn_future_awaiter<&Ctx::done> cfa(c); cfa << src;
  discard(src); discard([]{ return coro_future(1); });
  promise<int> mp = make_promise<int>([](future<int> &r){ (void)r.ready(); }); mp(1);
  reusable_storage st; promise<int> mp2 = make_promise<int>([](future<int> &){}, st); mp2(2);
  callback_await<future<int>>([](await_result<int> r){ try { (void)*r; } catch (...) {} }, src);
  callback_await<future<void>>([](await_result<void> r){ try { r.get(); } catch (...) {} }, srcv);
  callback_await_alloc<reusable_storage, future<int>>(st, [](await_result<int> r){ (void)!r; }, src);
  sync_awaiter sa; sa.wakeup(); sa.wait_sync();
  promise_with_default<int> pd(promise<int>(), 5); promise_with_default_v<int,7> pdv; (void)pd; (void)pdv;
}
void use_shared() {
  shared_future<int> a; promise<int> p = a.get_promise(); shared_future<int> b = a; p(1); a.ready(); a.wait(); a.sync(); a.force_sync(); (void)a.force_wait(); (void)b.value();
  shared_future<int> c([](promise<int> q){ q(2); }); shared_future<int> d([]{ return future<int>::set_value(3); }); shared_future<int> e = shared_future<int>::set_value(4); shared_future<int> f = shared_future<int>::set_exception({});
  d << []{ return future<int>::set_value(5); }; a.init_if_needed(); future<int> &r = c; (void)r;
}
async<int> await_shared(shared_future<int> s) { co_return co_await s; }
void drive_all(promise<int> &p, future<int> &f, Ctx &c, int &ref) {
  use_future<int>(1); use_future<void>(); use_future<MoveOnly>(3); use_future<Counted>(4); use_future<int&, int&>(ref);
  use_async(p, f); use_adapters(c); use_shared(); await_shared(shared_future<int>()).detach();
}
