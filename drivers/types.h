#pragma once
#include <utility>
struct MoveOnly { int v; explicit MoveOnly(int v=0):v(v){} MoveOnly(MoveOnly&&o) noexcept:v(o.v){o.v=-1;} MoveOnly& operator=(MoveOnly&&o) noexcept {v=o.v;o.v=-1;return *this;} MoveOnly(const MoveOnly&)=delete; MoveOnly& operator=(const MoveOnly&)=delete; };
struct Counted { static inline int live=0; int v; Counted(int v=0):v(v){++live;} Counted(const Counted&o):v(o.v){++live;} Counted(Counted&&o) noexcept:v(o.v){++live;} Counted&operator=(const Counted&)=default; ~Counted(){--live;} };
