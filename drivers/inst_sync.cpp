// instantiation matrix: mutex / suspend_point / coro_queue / queue / limited_queue / signal / publisher
#include <cocls/mutex.h>
#include <cocls/queue.h>
#include <cocls/signal.h>
#include <cocls/publisher.h>
#include <cocls/async.h>
#include <string>
#include <vector>
#include "types.h"
using namespace cocls;
async<void> locker(mutex &mx) { auto o = co_await mx.lock(); (void)(bool)o; (void)!o; co_await o.release(); mutex::ownership o2 = co_await mx.lock(); mutex::ownership o3(std::move(o2)); o3.release(); }
void use_mutex() { mutex mx; { mutex::ownership o = mx.lock().wait(); auto t = mx.try_lock(); (void)(bool)t; o.release(); } { mutex::ownership o(mx.lock()); } mx.lock().sync(); locker(mx).detach(); }
void use_sp(std::coroutine_handle<> h) {
  suspend_point<void> a; suspend_point<void> b(h); suspend_point<void> c(std::move(b)); a << std::move(c); a << std::coroutine_handle<>(h); a = suspend_point<void>(h);
  a.size(); a.empty(); a.pop(); a.await_ready(); a.await_suspend(h); a.suspend_now(); a.clear();
  suspend_point<bool> t(true); suspend_point<bool> t2(h, false); suspend_point<bool> t3(std::move(a), true); (void)(bool)t3; t3.await_resume();
  coro_queue::resume(h); coro_queue::is_active(); coro_queue::can_block(); coro_queue::install_queue_and_resume(h); coro_queue::swap_coroutine(h); coro_queue::resume_handle_next();
  auto sp = coro_queue::create_suspend_point([&]{ return 1; }); auto spv = coro_queue::create_suspend_point([&]{}); (void)sp; (void)spv;
}
template<typename T, typename Mk> async<void> q_consumer(queue<T> &q, limited_queue<T> &lq, Mk mk) {
  co_await q.pop(); co_await lq.pop(); co_await lq.push(mk()); co_await q.push(mk());
}
template<typename T, typename Mk> void use_queue(Mk mk) {
  queue<T> q; { bool w = q.push(mk()); (void)w; } q.empty(); q.size(); q.pop().wait(); auto f = q.pop(); { bool u = q.unblock_pop(std::make_exception_ptr(1)); (void)u; } try { f.wait(); } catch (...) {}
  limited_queue<T> lq(2); lq.push(mk()).wait(); lq.size(); lq.empty(); lq.pop().wait(); { bool u = lq.unblock_push(std::make_exception_ptr(1)); (void)u; }
  q_consumer<T>(q, lq, mk).detach();
}
void use_queue_void() { queue<void> q; q.push(); q.pop().wait(); q.size(); q.empty(); q.unblock_pop({}); }
void use_single() { queue<int, primitives::std_queue, primitives::single_item_queue> q; q.push(1); q.pop().wait(); queue<int, primitives::std_queue, primitives::std_queue, primitives::no_lock> nq; nq.push(1); nq.pop().wait(); }
template<typename T> async<void> listener(typename signal<T>::emitter e) { for (;;) { co_await e; } }
async<void> hooked() { auto e = signal<int>::hook_up([](auto c){ c(1); }); int &v = co_await e; (void)v; }
void use_signal() {
  signal<int> s; auto c = s.get_collector(); auto e = s.get_emitter(); listener<int>(e).detach(); c(1); int v = 2; c(v); c(std::move(v)); s.connect([](int &x){ return x < 3; }); signal<int> s2 = c; (void)s2;
  signal<void> sv; auto cv = sv.get_collector(); listener<void>(sv.get_emitter()).detach(); cv(); sv.connect([]{ return false; });
  signal<std::string> ss; auto cs = ss.get_collector(); cs("a", 1); hooked().detach(); signal<int>::emitter e2; e2 = e; signal<int>::emitter e3(e2); (void)e3;
}
async<void> sub_coro(subscriber<int> s) { while (co_await s.next()) { (void)s.value(); } }
void use_publisher() {
  publisher<int> pub; publisher<int> pub2(4, 2); subscriber<int> a(pub); subscriber<int> b(pub, subscribtion_type::skip_if_behind); subscriber<int> c(pub, 0, subscribtion_type::skip_to_recent); subscriber<int> d(a);
  pub.publish(1); int v = 2; pub.publish(v); std::vector<int> many{3,4}; pub.publish(many.begin(), many.end());
  (void)(bool)a.next(); (void)!a.next(); a.next_ready(); a.position(); (void)a.value(); const subscriber<int> &ca = a; (void)ca.value(); for (auto &x : b) { (void)x; break; } (void)(bool)c.next();
  a.kick_me(); pub.kick(&b); sub_coro(subscriber<int>(pub2)).detach(); pub.close(); pub.get_queue();
}
void drive_all(std::coroutine_handle<> h) { use_mutex(); use_sp(h); use_queue<int>([]{return 1;}); use_queue<std::string>([]{return std::string("x");}); use_queue<MoveOnly>([]{return MoveOnly(1);}); { int i = 1; queue<int> q; q.push(i); limited_queue<int> lq(1); lq.push(i).wait(); } use_queue_void(); use_single(); use_signal(); use_publisher(); }
